"""Program generator: one PRNG, structured mostly-valid programs plus a malformed stream (DESIGN 3.1)."""
import random

from terms import Z, N, P, Some, optZ
import terms

TASKCONS = ['CStartAt', 'CStartAfter', 'CEndAt', 'CEndBefore', 'CPrecedence', 'CStartSynced', 'CEndSynced',
            'CDontOverlap', 'CContiguous', 'CUGroup', 'COGroup', 'CScheduleN']
OPTCONS = ['CForceSched', 'CCondSched', 'CDependency', 'CForceN']
FOL = ['CNot', 'COr', 'CAnd', 'CXor', 'CImplies', 'CIte', 'CExpr']
RESCONS = ['CWorkLoad', 'CUnavailable', 'CPeriodicUnavailable', 'CInterrupted', 'CPeriodicInterrupted',
           'CNonDelay', 'CDistance', 'CSameWorkers', 'CDistinctWorkers']

PROFILES = {
    # weights: which constraint families appear, optional-task / optional-constraint rates, resources, malformed rate
    'tasks':     dict(cons=dict(task=2, opt=1, fol=0, res=0), p_opt=0.4, p_copt=0.1, resources=0.3, p_bad=0.0, ncons=(0, 3)),
    'taskcons':  dict(cons=dict(task=8, opt=1, fol=1, res=0), p_opt=0.35, p_copt=0.15, resources=0.2, p_bad=0.0, ncons=(1, 6)),
    'fol':       dict(cons=dict(task=4, opt=1, fol=6, res=0), p_opt=0.3, p_copt=0.35, resources=0.1, p_bad=0.0, ncons=(2, 8)),
    'optional':  dict(cons=dict(task=4, opt=4, fol=1, res=1), p_opt=0.7, p_copt=0.15, resources=0.5, p_bad=0.0, ncons=(1, 6)),
    'resources': dict(cons=dict(task=2, opt=1, fol=0, res=1), p_opt=0.3, p_copt=0.1, resources=1.0, p_bad=0.0, ncons=(0, 4)),
    'rescons':   dict(cons=dict(task=1, opt=0, fol=0, res=8), p_opt=0.3, p_copt=0.15, resources=1.0, p_bad=0.0, ncons=(1, 5)),
    'late':      dict(cons=dict(task=1, opt=0, fol=0, res=8), p_opt=0.2, p_copt=0.05, resources=1.0, p_bad=0.0, ncons=(1, 3), p_late=0.8,
                      rescons=['CUnavailable', 'CWorkLoad', 'CInterrupted']),
    'mixed':     dict(cons=dict(task=4, opt=2, fol=2, res=4), p_opt=0.35, p_copt=0.2, resources=0.8, p_bad=0.0, ncons=(1, 7)),
    'indicators': dict(dues=[None, 6, 9, 15, 25], horizons=[None, None, 7, 20, 30, 30, 40, 200], cons=dict(task=3, opt=1, fol=0, res=1, buf=1), p_opt=0.35, p_copt=0.05, resources=0.9, p_bad=0.0, ncons=(0, 4),
                       p_buf=0.4, n_ind=(1, 4), p_obj=0.3),
    'buffers':   dict(horizons=[None, None, 20, 30, 30, 40, 200], cons=dict(task=2, opt=1, fol=0, res=0, buf=6), p_opt=0.2, p_copt=0.0, resources=0.2, p_bad=0.0, ncons=(1, 6),
                      p_buf=1.0, n_ind=(0, 2), p_obj=0.2, p_shared=0.5),
    'objectives': dict(horizons=[None, None, 7, 20, 30, 30, 40, 200], cons=dict(task=3, opt=1, fol=0, res=1, buf=1), p_opt=0.35, p_copt=0.05, resources=0.8, p_bad=0.0, ncons=(0, 4),
                       p_buf=0.3, n_ind=(0, 2), p_obj=1.0),
    'optional_ind': dict(dues=[None, 6, 9, 15, 25], horizons=[None, None, 20, 30, 40, 200], cons=dict(task=3, opt=3, fol=0, res=1, buf=2), p_opt=0.7, p_copt=0.05,
                         resources=0.9, p_bad=0.0, ncons=(0, 4), p_buf=0.4, n_ind=(1, 4), p_obj=0.2),
    'malformed': dict(cons=dict(task=4, opt=3, fol=2, res=4), p_opt=0.35, p_copt=0.3, resources=0.9, p_bad=1.0, ncons=(1, 5)),
}


# element kinds the source watch asks for (empty on the recorded tree: the random stream is then untouched)
FOCUS = set()


def pick(r, options):
    """r.choice(options), biased towards FOCUS when some option is in it"""
    if FOCUS:
        pref = [o for o in options if o in FOCUS]
        if pref and r.random() < 0.6:
            return r.choice(pref)
    return r.choice(options)


class Gen:
    def __init__(self, rng, profile='mixed', size='quick'):
        self.r = rng
        self.pf = PROFILES[profile]
        self.big = size != 'quick'

    # ---- small value pools with forced boundary values ----
    def time(self):
        return self.r.choice([0, 0, 1, 2, 3, 4, 5, 6, 8, 10, 12])

    def interval(self):
        lo = self.r.choice([0, 1, 2, 3, 4, 5, 6, 8])
        return (lo, lo + self.r.choice([1, 2, 3, 4, 6]))

    def intervals(self, n=None):
        n = n or self.r.choice([1, 1, 2, 2, 3])
        out = []
        seen = set()
        for _ in range(n):
            iv = self.interval()
            if iv not in seen:
                seen.add(iv)
                out.append(iv)
        return out

    # ---- program ----
    def program(self):
        r = self.r
        self.ops = []
        self.tasks = {}      # id -> dict(kind, opt)
        self.workers = []    # wref terms
        self.cumuls = {}     # id -> size
        self.selects = {}    # id -> listed
        self.cons = {}       # id -> dict(opt, kind, used)
        self.assigned = {}   # resobj key -> set of task ids
        self.buffers = {}    # id -> dict(conc)
        self.inds = {}       # id -> kind
        self.nexti = 1
        self.nextc = 1
        hz = r.choice(self.pf.get('horizons', [None, None, 1, 7, 10, 20, 20, 30, 30, 200, 200]))
        self.horizon = hz
        self.ops.append(('ONewProblem', optZ(hz)))
        nt = r.randint(1, 6 if self.big else 5)
        for i in range(1, nt + 1):
            self.new_task(i)
        if r.random() < self.pf['resources']:
            for i in range(1, r.randint(1, 3) + 1):
                self.ops.append(('ONewWorker', N(i), Z(r.choice([0, 1, 1, 1, 2, 3])), self.cost()))
                self.workers.append(('WPlain', N(i)))
            if r.random() < 0.5:
                size = r.choice([2, 2, 3, 2, 2, 3, 2, 11])   # now and then more than 9 units (two-digit unit numbers)
                self.ops.append(('ONewCumulative', N(1), Z(size), Z(r.choice([1, 2, 5, 7])), ('CostConst', Z(r.choice([0, 1, 5])))))
                self.cumuls[1] = size
            if len(self.workers) >= 2 and r.random() < 0.7:
                for sid in range(1, r.randint(1, 2) + 1):
                    k = r.randint(2, len(self.workers))
                    listed = r.sample(self.workers, k)
                    n = r.randint(1, k)
                    refs = [('RW', w) for w in listed]
                    if self.cumuls and r.random() < 0.15:
                        # a cumulative worker listed inside a selection (not flattened by the library)
                        refs.insert(r.randint(0, len(refs)), ('RC', N(1)))
                        n = r.randint(1, len(refs))
                    self.ops.append(('ONewSelect', N(sid), refs, Z(n),
                                     (r.choice(['PbMin', 'PbMax', 'PbExact']),)))
                    self.selects[sid] = listed
            self.assignments(r.randint(1, 2 * nt))
        if r.random() < self.pf.get('p_buf', 0.0):
            nb = r.choice([1, 1, 2]) if self.pf.get('p_buf', 0.0) < 1.0 else r.choice([1, 2, 2])
            first_conc = None
            for b in range(1, nb + 1):
                # two buffers of one problem are more often of the same kind (what one buffer's encoding leaves behind must not
                # reach the next one)
                conc = (r.random() < 0.5) if first_conc is None or r.random() < 0.4 else first_conc
                first_conc = conc if first_conc is None else first_conc
                init = r.choice([None, 0, 5, 10, 10])
                final = r.choice([None, None, None, None, None, 3, 8]) if init is not None else r.choice([0, 4, 10])
                self.ops.append(('ONewBuffer', N(b), conc, optZ(init), optZ(final),
                                 optZ(r.choice([None, None, None, 0, 2])), optZ(r.choice([None, None, None, 12, 20]))))
                self.buffers[b] = dict(conc=conc)
        lo, hi = self.pf['ncons']
        ncons = r.randint(lo, hi + (3 if self.big else 0))
        for _ in range(ncons):
            self.new_constraint()
            # late assignment (after constraints exist)
            if self.workers and r.random() < self.pf.get('p_late', 0.12):
                self.assignments(1)
        lo, hi = self.pf.get('n_ind', (0, 0))
        for _ in range(r.randint(lo, hi)):
            self.new_indicator()
            if self.workers and r.random() < self.pf.get('p_late', 0.08):
                self.assignments(1)
        if r.random() < self.pf.get('p_obj', 0.0):
            for _ in range(r.choice([1, 1, 1, 2, 2, 3])):
                self.new_objective()
        if self.buffers and r.random() < self.pf.get('p_shared', 0.2):
            # every task that accesses one buffer also holds one common worker (the accesses of a shared worker may still
            # coincide: a load at the end of one task and an unload at the start of the next one)
            by_buf = {}
            for o in self.ops:
                if o[0] == 'ONewConstraint' and o[3][0] in ('CLoad', 'CUnload') and not o[2]:
                    us = by_buf.setdefault(terms.nval(o[3][2]), [])
                    if terms.nval(o[3][1]) not in us:
                        us.append(terms.nval(o[3][1]))
            cands = [b for b in sorted(by_buf) if len(by_buf[b]) >= 2]
            conc = [b for b in cands if self.buffers.get(b, {}).get('conc')]
            users = by_buf[r.choice(conc or cands)] if cands else []
            if len(users) >= 2:
                self.ops.append(('ONewWorker', N(9), Z(1), ('CostConst', Z(0))))
                dyn = r.random() < 0.3
                for t in users:
                    self.ops.append(('OAddRequired', N(t), ('ArgW', ('WPlain', N(9))), dyn, Z(0), Z(0)))
        if r.random() < self.pf['p_bad']:
            return self.malform(self.ops)
        return self.ops

    # ---- indicators / objectives ----
    def any_resobj(self):
        objs = [('ResW', w) for w in self.workers] + [('ResC', N(c)) for c in self.cumuls]
        return self.r.choice(objs) if objs else None

    def task_subset(self, need_due=False):
        r = self.r
        ts = list(self.tasks)
        if need_due and r.random() < 0.9:
            ts = [t for t in ts if self.tasks[t].get('due') is not None]
            if len(ts) == len(self.tasks) and r.random() < 0.5:
                return None
            if not ts:
                return Some([])
        elif r.random() < 0.5:
            return None
        return Some([N(x) for x in r.sample(ts, r.randint(1, len(ts)))])

    def ind_term(self):
        r = self.r
        ts = list(self.tasks)
        parts = []
        for t in r.sample(ts, r.randint(1, min(3, len(ts)))):
            v = ('TV', (r.choice(['VStart', 'VEnd']), N(t)))
            parts.append(v if r.random() < 0.5 else ('TMul', ('TC', Z(r.choice([1, 2, 3]))), v))
        if r.random() < 0.3:
            parts.append(('TC', Z(r.choice([1, 5]))))
        return ('TAdd', parts) if len(parts) > 1 else parts[0]

    def new_indicator(self):
        r = self.r
        kinds = ['IExpr', 'ITardiness', 'IEarliness', 'INbTardy', 'IMaxLateness']
        if self.workers or self.cumuls:
            kinds += ['IUtilization', 'INbTasks', 'IIdle', 'ICost', 'IUtilization', 'INbTasks', 'ICost']
        if self.buffers:
            kinds += ['IMaxBuf', 'IMinBuf']
        k = pick(r, kinds)
        bounds = None
        if k == 'IExpr':
            e = (k, self.ind_term())
            if r.random() < 0.3:
                bounds = Some(P(Z(r.choice([0, 2])), Z(r.choice([30, 100]))))
        elif k in ('IUtilization', 'INbTasks', 'IIdle'):
            e = (k, self.any_resobj())
        elif k in ('ITardiness', 'IEarliness', 'INbTardy', 'IMaxLateness'):
            e = (k, self.task_subset(need_due=True))
        elif k == 'ICost':
            objs = [('ResW', w) for w in self.workers] + [('ResC', N(c)) for c in self.cumuls]
            e = (k, r.sample(objs, r.randint(1, len(objs))))
        else:
            e = (k, N(r.choice(list(self.buffers))))
        iid = self.nexti
        self.nexti += 1
        self.ops.append(('ONewIndicator', N(iid), e, bounds))
        self.inds[iid] = k
        # sometimes constrain it
        if r.random() < 0.15:
            cid = self.nextc
            self.nextc += 1
            if r.random() < 0.3:
                ce = ('CIndTarget', N(iid), Z(r.choice([0, 1, 2, 5, 10])))
            else:
                lo = r.choice([None, 0, 1])
                hi = r.choice([None, 0, 5, 20]) if lo is not None else r.choice([0, 5, 20])
                ce = ('CIndBounds', N(iid), optZ(lo), optZ(hi))
            opt = r.random() < 0.3      # optional indicator constraints bind only when applied
            self.ops.append(('ONewConstraint', N(cid), opt, ce))
            self.cons[cid] = dict(opt=opt, kind=ce[0], used=False)

    def new_objective(self):
        r = self.r
        kinds = ['OMakespan', 'OStartLatest', 'OStartEarliest', 'OGreatestStart', 'OFlowtime', 'OPriorities', 'ORaw', 'ORaw']
        if self.workers or self.cumuls:
            kinds += ['OMaxUtilization', 'OMinCost', 'OFlowtimeSingle']
        if self.buffers:
            kinds += ['OMaxBufMax', 'OMinBufMax']
        if self.inds:
            kinds += ['OMinIndicator', 'OMaxIndicator', 'OMinIndicator']
        k = pick(r, kinds)
        if k == 'ORaw':
            # (the incremental optimiser reads model[target]: the target must be a variable)
            o = (k, N(self.nexti), ('TV', (r.choice(['VStart', 'VEnd']), N(r.choice(list(self.tasks))))), Z(r.choice([1, 2, 3])), r.random() < 0.3)
        elif k in ('OMakespan', 'OStartEarliest', 'OPriorities'):
            o = (k,)
        elif k in ('OStartLatest', 'OGreatestStart', 'OFlowtime'):
            o = (k, self.task_subset())
        elif k == 'OMaxUtilization':
            o = (k, self.any_resobj())
        elif k == 'OMinCost':
            objs = [('ResW', w) for w in self.workers] + [('ResC', N(c)) for c in self.cumuls]
            o = (k, r.sample(objs, r.randint(1, len(objs))))
        elif k == 'OFlowtimeSingle':
            iv = None if r.random() < 0.5 else Some(P(*map(Z, self.wide_interval())))
            o = (k, self.any_resobj(), iv)
        elif k in ('OMaxBufMax', 'OMinBufMax'):
            o = (k, N(r.choice(list(self.buffers))))
        else:
            o = (k, N(r.choice(list(self.inds))), Z(r.choice([1, 1, 2, 3])))
        iid = self.nexti
        self.nexti += 1
        self.ops.append(('ONewObjective', o, N(iid)))

    def cost(self):
        r = self.r
        x = r.random()
        if x < 0.6:
            return ('CostConst', Z(r.choice([0, 0, 1, 2, 5])))
        if x < 0.85:
            return ('CostLinear', Z(r.choice([0, 1, 2])), Z(r.choice([0, 1, 3])))
        return ('CostPoly', [Z(r.choice([0, 1, 2])) for _ in range(r.choice([2, 3]))])

    def new_task(self, i):
        r = self.r
        x = r.random()
        if x < 0.15:
            kind = ('KZero',)
        elif x < 0.7:
            kind = ('KFixed', Z(r.choice([1, 1, 2, 3, 4, 5])))
        else:
            mn = r.choice([0, 0, 1, 2])
            mx = r.choice([None, None, mn + 1, mn + 3, 6])
            al = r.choice([None, None, None, None, None, None, [1, 3], [2, 4, 5], [3], [1, 3], [2, 4, 5], [3], [2, 2, 4], [5, 1, 5, 5, 1], [4, 2, 2]])
            kind = ('KVar', Z(mn), optZ(mx), None if al is None else Some([Z(a) for a in al]))
        opt = r.random() < self.pf['p_opt']
        # release dates and due dates overlap (a due date may lie before another task's release date)
        rel = r.choice([None, None, None, 0, 2, 5, 6, 9, -2])     # a negative release date is legal (and vacuous)
        due = r.choice(self.pf.get('dues', [None, None, None, None, 0, 3, 6, 9, 15, 25]))
        dl = r.random() < 0.5
        work = r.choice([0, 0, 0, 0, 2, 4])
        self.ops.append(('ONewTask', N(i), kind, opt, Z(work), optZ(rel), optZ(due), dl, Z(r.choice([0, 1, 1, 2, 5]))))
        self.tasks[i] = dict(kind=kind[0], opt=opt, due=due)

    def assignments(self, n):
        r = self.r
        for _ in range(n):
            t = r.choice(list(self.tasks))
            x = r.random()
            if self.cumuls and x < 0.25:
                c = r.choice(list(self.cumuls))
                self.ops.append(('OAddRequired', N(t), ('ArgC', N(c)), False, Z(0), Z(0)))
                for i in range(self.cumuls[c]):
                    self.assigned.setdefault(('W', ('WUnit', N(c), N(i))), set()).add(t)
                self.assigned.setdefault(('Cany', c), set()).add(t)
            elif self.selects and x < 0.5:
                s = r.choice(list(self.selects))
                key = ('sel', t, s)
                if key in self.assigned:
                    continue
                self.assigned[key] = True
                self.ops.append(('OAddRequired', N(t), ('ArgS', N(s)), False, Z(0), Z(0)))
                for w in self.selects[s]:
                    self.assigned.setdefault(('W', w), set()).add(t)
                    self.assigned.setdefault(('req', t), set()).add(w)
            else:
                w = r.choice(self.workers)
                if w in self.assigned.get(('req', t), set()):
                    continue
                dyn = r.random() < 0.25
                di = r.choice([0, 0, 0, 1, 2])
                eo = r.choice([0, 0, 0, 1, 2])
                self.ops.append(('OAddRequired', N(t), ('ArgW', w), dyn, Z(di), Z(eo)))
                self.assigned.setdefault(('W', w), set()).add(t)
                self.assigned.setdefault(('req', t), set()).add(w)

    # ---- constraints ----
    def pick_family(self):
        w = self.pf['cons']
        fams = [f for f in ('task', 'opt', 'fol', 'res', 'buf') if w.get(f, 0) > 0]
        return self.r.choices(fams, weights=[w[f] for f in fams])[0]

    def raw_form(self):
        r = self.r
        ts = list(self.tasks)
        a, b = r.choice(ts), r.choice(ts)
        va = ('TV', (r.choice(['VStart', 'VEnd']), N(a)))
        vb = ('TV', (r.choice(['VStart', 'VEnd']), N(b)))
        k = Z(r.choice([0, 1, 2, 3, 5, 8]))
        x = r.random()
        if x < 0.3:
            return (r.choice(['FLe', 'FLt', 'FGe', 'FEq']), va, ('TC', k))
        if x < 0.6:
            return (r.choice(['FLe', 'FLt', 'FGe', 'FEq', 'FNe']), ('TAdd', [va, ('TC', k)]), vb)
        opts = [t for t in ts if self.tasks[t]['opt']]
        if opts and x < 0.8:
            return ('FB', ('BSched', N(r.choice(opts))))
        return ('FOr', [('FLe', va, ('TC', k)), ('FGt', vb, ('TC', k))])

    def cond_form(self):
        # the condition of Implies / IfThenElse may be a plain Python bool (a configuration flag): FT / FF
        x = self.r.random()
        if x < 0.08:
            return ('FT',)
        if x < 0.16:
            return ('FF',)
        return self.raw_form()

    def operand(self):
        r = self.r
        cands = [c for c, d in self.cons.items() if d['kind'] not in ('CForceApplyN',)]
        if cands and r.random() < 0.65:
            c = r.choice(cands)
            self.cons[c]['used'] = True
            return ('OpC', N(c))
        return ('OpRaw', self.raw_form())

    def new_constraint(self):
        r = self.r
        fam = self.pick_family()
        ts = list(self.tasks)
        e = None
        if fam == 'task':
            k = pick(r, TASKCONS)
            t = N(r.choice(ts))
            if k == 'CStartAt' or k == 'CEndAt':
                e = (k, t, Z(r.choice([self.time(), self.time(), self.time(), self.time(), -3])))
            elif k in ('CStartAfter', 'CEndBefore'):
                e = (k, t, Z(self.time()), r.random() < 0.5)
            elif k == 'CPrecedence':
                a, b = r.choice(ts), r.choice(ts)
                e = (k, N(a), N(b), Z(r.choice([0, 0, 1, 3])), (r.choice(['Lax', 'Strict', 'Tight']),))
            elif k in ('CStartSynced', 'CEndSynced', 'CDontOverlap'):
                if len(ts) < 2:
                    return
                a, b = r.sample(ts, 2)
                e = (k, N(a), N(b))
            elif k == 'CContiguous':
                if len(ts) < 2:
                    return
                e = (k, [N(x) for x in r.sample(ts, r.randint(2, min(4, len(ts))))])
            elif k in ('CUGroup', 'COGroup'):
                sel = [N(x) for x in r.sample(ts, r.randint(1, min(4, len(ts))))]
                x = r.random()
                win = Some(P(*map(Z, self.wide_interval()))) if x < 0.5 else None
                ln = optZ(r.choice([0, 4, 8, 12])) if (x >= 0.5 and x < 0.85) else None
                e = (k, sel, win, ln) + (((r.choice(['Lax', 'Strict', 'Tight']),),) if k == 'COGroup' else ())
            elif k == 'CScheduleN':
                sel = [N(x) for x in r.sample(ts, r.randint(1, min(4, len(ts))))]
                e = (k, sel, Z(r.randint(0, len(sel))), [P(Z(a), Z(b)) for a, b in self.intervals()],
                     (r.choice(['PbMin', 'PbMax', 'PbExact']),))
        elif fam == 'opt':
            opts = [t for t in ts if self.tasks[t]['opt']]
            if not opts:
                return
            k = r.choice(OPTCONS)
            if k == 'CForceSched':
                e = (k, N(r.choice(opts)), r.random() < 0.5)
            elif k == 'CCondSched':
                e = (k, N(r.choice(opts)), self.raw_form())
            elif k == 'CDependency':
                e = (k, N(r.choice(ts)), N(r.choice(opts)))
            else:
                sel = r.sample(opts, r.randint(1, len(opts)))
                e = (k, [N(x) for x in sel], Z(r.randint(1, len(sel))), (r.choice(['PbMin', 'PbMax', 'PbExact']),))
        elif fam == 'fol':
            k = pick(r, FOL + ['CForceApplyN'])
            if k == 'CExpr':
                e = (k, self.raw_form())
            elif k == 'CNot':
                e = (k, self.operand())
            elif k in ('COr', 'CAnd'):
                e = (k, [self.operand() for _ in range(r.randint(1, 3))])
            elif k == 'CXor':
                e = (k, self.operand(), self.operand())
            elif k == 'CImplies':
                e = (k, self.cond_form(), [self.operand() for _ in range(r.randint(1, 2))])
            elif k == 'CIte':
                e = (k, self.cond_form(), [self.operand() for _ in range(r.randint(1, 2))],
                     [self.operand() for _ in range(r.randint(1, 2))])
            else:
                oc = [c for c, d in self.cons.items() if d['opt']]
                if not oc:
                    return
                sel = r.sample(oc, r.randint(1, len(oc)))
                e = (k, [N(c) for c in sel], Z(r.randint(1, len(sel))), (r.choice(['PbMin', 'PbMax', 'PbExact']),))
        elif fam == 'buf':
            if not self.buffers:
                return
            b = r.choice(list(self.buffers))
            e = (r.choice(['CLoad', 'CUnload']), N(r.choice(ts)), N(b), Z(r.choice([1, 2, 3, 5])))
        else:
            e = self.res_constraint()
        if e is None:
            return
        cid = self.nextc
        self.nextc += 1
        opt = r.random() < self.pf['p_copt']
        self.ops.append(('ONewConstraint', N(cid), opt, e))
        self.cons[cid] = dict(opt=opt, kind=e[0], used=False)

    def wide_interval(self):
        lo = self.r.choice([0, 0, 1, 2, 4])
        return (lo, lo + self.r.choice([3, 6, 10, 14]))

    def busy_resobjs(self, need=1):
        out = []
        for w in self.workers:
            if len(self.assigned.get(('W', w), ())) >= need:
                out.append(('ResW', w))
        for c in self.cumuls:
            if len(self.assigned.get(('Cany', c), ())) >= need:
                out.append(('ResC', N(c)))
        return out

    def res_constraint(self):
        r = self.r
        k = pick(r, self.pf.get('rescons', RESCONS))
        if k in ('CSameWorkers', 'CDistinctWorkers'):
            if len(self.selects) < 2:
                return None
            a, b = r.sample(list(self.selects), 2)
            return (k, N(a), N(b))
        if k in ('CNonDelay', 'CDistance'):
            objs = [o for o in self.busy_resobjs(2) if o[0] == 'ResW']
            if not objs:
                return None
            o = r.choice(objs)
            if k == 'CNonDelay':
                return (k, o)
            ivs = None if r.random() < 0.6 else Some([P(Z(a), Z(b)) for a, b in [self.wide_interval()]])
            return (k, o, Z(r.choice([0, 1, 2, 4])), ivs, (r.choice(['PbMin', 'PbMax', 'PbExact']),))
        objs = self.busy_resobjs(1)
        if not objs:
            return None
        o = r.choice(objs)
        if k == 'CWorkLoad':
            ivs = self.intervals()
            return (k, o, [P(P(Z(a), Z(b)), Z(r.choice([0, 1, 2, 3, 5]))) for a, b in ivs],
                    (r.choice(['PbMin', 'PbMax', 'PbExact']),))
        if k in ('CUnavailable', 'CInterrupted'):
            return (k, o, [P(Z(a), Z(b)) for a, b in self.intervals()])
        period = r.choice([4, 5, 7, 10])
        ivs = []
        for _ in range(r.choice([1, 1, 2])):
            lo = r.randint(0, period - 1)
            hi = r.randint(lo + 1, period)
            if (lo, hi) not in ivs:
                ivs.append((lo, hi))
        return (k, o, [P(Z(a), Z(b)) for a, b in ivs], Z(period), Z(r.choice([0, 0, 0, 3])),
                Z(r.choice([0, 0, 1, 2])), optZ(r.choice([None, None, 12, 20])))

    # ---- malformed stream: exactly one op made ill-formed (or out of order) ----
    def malform(self, ops):
        r = self.r
        ops = list(ops)
        choices = ['no_problem', 'dup_task', 'bad_duration', 'neg_work', 'neg_prio', 'neg_min', 'bad_horizon',
                   'select_too_many', 'select_short', 'cumul_size', 'force_mandatory', 'applyn_mandatory',
                   'unassigned', 'dup_worker', 'dup_cons', 'neg_prod', 'forcen_mandatory', 'neg_offset',
                   'dep_mandatory', 'valid']
        k = r.choice(choices)
        self.bad_kind = k
        T = lambda i, kind, opt=False, work=0, prio=1: ('ONewTask', N(i), kind, opt, Z(work), None, None, True, Z(prio))
        nid = 90
        if k == 'no_problem':
            return [r.choice([T(1, ('KFixed', Z(2))), ('ONewWorker', N(1), Z(1), ('CostConst', Z(0))),
                              ('ONewCumulative', N(1), Z(2), Z(1), ('CostConst', Z(0)))])] + ops
        if k == 'dup_task':
            return ops + [T(r.choice(list(self.tasks)), ('KFixed', Z(2)))]
        if k == 'bad_duration':
            return ops + [T(nid, ('KFixed', Z(r.choice([0, -1, 1]))))]
        if k == 'neg_work':
            return ops + [T(nid, ('KFixed', Z(2)), work=r.choice([-1, 0]))]
        if k == 'neg_prio':
            return ops + [T(nid, ('KZero',), prio=r.choice([-1, 0]))]
        if k == 'neg_min':
            return ops + [T(nid, r.choice([('KVar', Z(-1), None, None), ('KVar', Z(0), Some(Z(0)), None),
                                            ('KVar', Z(0), Some(Z(1)), None), ('KVar', Z(0), None, Some([Z(0), Z(2)])),
                                            ('KVar', Z(0), None, Some([]))]))]
        if k == 'bad_horizon':
            return [('ONewProblem', optZ(r.choice([0, -1, 1])))] + ops[1:]
        base_workers = [('ONewWorker', N(70 + i), Z(1), ('CostConst', Z(0))) for i in range(3)]
        ws = [('RW', ('WPlain', N(70 + i))) for i in range(3)]
        if k == 'select_too_many':
            n = r.choice([3, 4])
            if r.random() < 0.4:
                # a cumulative worker in the list counts as ONE listed resource
                return ops + base_workers + [('ONewCumulative', N(nid), Z(3), Z(3), ('CostConst', Z(0))),
                                             ('ONewSelect', N(nid), ws[:r.choice([1, 2])] + [('RC', N(nid))], Z(r.choice([2, 3, 4])), ('PbMin',))]
            return ops + base_workers + [('ONewSelect', N(nid), ws, Z(n), ('PbMin',))]
        if k == 'select_short':
            m = r.choice([0, 1, 2])
            return ops + base_workers + [('ONewSelect', N(nid), ws[:m], Z(r.choice([0, 1])), ('PbExact',))]
        if k == 'cumul_size':
            return ops + [('ONewCumulative', N(nid), Z(r.choice([0, 1, 2])), Z(r.choice([0, 1])), ('CostConst', Z(0)))]
        if k == 'neg_prod':
            return ops + [('ONewWorker', N(nid), Z(r.choice([-1, 0])), ('CostConst', Z(0)))]
        if k == 'dup_worker':
            return ops + base_workers + [('ONewWorker', N(71), Z(1), ('CostConst', Z(0)))]
        if k == 'force_mandatory':
            opt = r.random() < 0.5
            return ops + [T(nid, ('KFixed', Z(2)), opt=opt), ('ONewConstraint', N(nid), False, ('CForceSched', N(nid), True))]
        if k == 'dep_mandatory':
            o1, o2 = r.random() < 0.5, r.random() < 0.5
            return ops + [T(nid, ('KFixed', Z(2)), opt=o1), T(nid + 1, ('KFixed', Z(2)), opt=o2),
                          ('ONewConstraint', N(nid), False, ('CDependency', N(nid), N(nid + 1)))]
        if k == 'forcen_mandatory':
            o1 = r.random() < 0.5
            return ops + [T(nid, ('KFixed', Z(2)), opt=o1), T(nid + 1, ('KZero',), opt=True),
                          ('ONewConstraint', N(nid), False, ('CForceN', [N(nid), N(nid + 1)], Z(r.choice([0, 1, 2])), ('PbMin',)))]
        if k == 'applyn_mandatory':
            o1 = r.random() < 0.5
            return ops + [T(nid, ('KFixed', Z(2))), ('ONewConstraint', N(nid), o1, ('CStartAt', N(nid), Z(1))),
                          ('ONewConstraint', N(nid + 1), True, ('CEndAt', N(nid), Z(9))),
                          ('ONewConstraint', N(nid + 2), False, ('CForceApplyN', [N(nid), N(nid + 1)], Z(r.choice([0, 1, 2])), ('PbMax',)))]
        if k == 'unassigned':
            e = r.choice([('CWorkLoad', ('ResW', ('WPlain', N(70))), [P(P(Z(0), Z(5)), Z(2))], ('PbMax',)),
                          ('CUnavailable', ('ResW', ('WPlain', N(70))), [P(Z(0), Z(5))]),
                          ('CInterrupted', ('ResW', ('WPlain', N(70))), [P(Z(0), Z(5))]),
                          ('CPeriodicUnavailable', ('ResW', ('WPlain', N(70))), [P(Z(0), Z(2))], Z(5), Z(0), Z(0), None),
                          ('CPeriodicInterrupted', ('ResW', ('WPlain', N(70))), [P(Z(0), Z(2))], Z(5), Z(0), Z(0), None),
                          ('CNonDelay', ('ResW', ('WPlain', N(70)))),
                          ('CDistance', ('ResW', ('WPlain', N(70))), Z(2), None, ('PbMin',))])
            pre = base_workers + [T(nid, ('KFixed', Z(2)))]
            if r.random() < 0.3:
                pre.append(('OAddRequired', N(nid), ('ArgW', ('WPlain', N(70))), False, Z(0), Z(0)))
                if r.random() < 0.5:
                    pre += [T(nid + 1, ('KFixed', Z(1))), ('OAddRequired', N(nid + 1), ('ArgW', ('WPlain', N(70))), False, Z(0), Z(0))]
            return ops + pre + [('ONewConstraint', N(nid), False, e)]
        if k == 'dup_cons':
            return ops + [T(nid, ('KFixed', Z(2))), ('ONewConstraint', N(nid), False, ('CStartAt', N(nid), Z(1))),
                          ('ONewConstraint', N(nid), False, ('CEndAt', N(nid), Z(9)))]
        if k == 'neg_offset':
            return ops + [T(nid, ('KFixed', Z(2))), T(nid + 1, ('KFixed', Z(2))),
                          ('ONewConstraint', N(nid), False, ('CPrecedence', N(nid), N(nid + 1), Z(r.choice([-1, 0])), ('Lax',)))]
        return ops


def generate(seed, n, profile, size='quick'):
    rng = random.Random(seed)
    g = Gen(rng, profile, size)
    return [g.program() for _ in range(n)]
