"""Constructor terms shared by the model (Coq / extracted OCaml) and the implementation runner.

A term is a tuple (ctor, *args).  Special heads: ('z', int) ('n', int) ('pair', a, b) ('Some', x);
None is Coq's None; Python bool / list map to bool / list.
"""


def Z(i):
    return ('z', int(i))


def N(i):
    return ('n', int(i))


def P(a, b):
    return ('pair', a, b)


def Some(x):
    return ('Some', x)


def optZ(v):
    return None if v is None else Some(Z(v))


def zval(t):
    assert t[0] == 'z', t
    return t[1]


def nval(t):
    assert t[0] == 'n', t
    return t[1]


def optval(t, f=lambda x: x):
    return None if t is None else f(t[1])


def to_ocaml(t):
    if t is None:
        return 'None'
    if isinstance(t, bool):
        return 'true' if t else 'false'
    if isinstance(t, list):
        return '[' + '; '.join(to_ocaml(x) for x in t) + ']'
    h = t[0]
    if h == 'z':
        return '(z_ (%d))' % t[1]
    if h == 'n':
        return '(n_ %d)' % t[1]
    if h == 'pair':
        return '(' + to_ocaml(t[1]) + ', ' + to_ocaml(t[2]) + ')'
    if len(t) == 1:
        return h
    return '(' + h + ' (' + ', '.join(to_ocaml(x) for x in t[1:]) + '))'


def to_coq(t):
    if t is None:
        return 'None'
    if isinstance(t, bool):
        return 'true' if t else 'false'
    if isinstance(t, list):
        return '[' + '; '.join(to_coq(x) for x in t) + ']'
    h = t[0]
    if h == 'z':
        return '(%d)%%Z' % t[1]
    if h == 'n':
        return '%d%%nat' % t[1]
    if h == 'pair':
        return '(' + to_coq(t[1]) + ', ' + to_coq(t[2]) + ')'
    if len(t) == 1:
        return h
    return '(' + h + ' ' + ' '.join(to_coq(x) for x in t[1:]) + ')'


def to_json(t):
    """JSON-able rendering for evidence/replay files."""
    if t is None or isinstance(t, bool):
        return t
    if isinstance(t, list):
        return [to_json(x) for x in t]
    h = t[0]
    if h in ('z', 'n'):
        return t[1]
    if h == 'pair':
        return [to_json(t[1]), to_json(t[2])]
    if h == 'Some':
        return to_json(t[1])
    return {h: [to_json(x) for x in t[1:]]} if len(t) > 1 else h


def from_jsonable(o):
    """inverse of dump() below"""
    if isinstance(o, dict):
        if '__t' in o:
            return tuple([o['__t']] + [from_jsonable(x) for x in o['a']])
        raise ValueError(o)
    if isinstance(o, list):
        return [from_jsonable(x) for x in o]
    return o


def dump(t):
    """lossless JSON-able rendering (for replay files)"""
    if t is None or isinstance(t, (bool, int, str)):
        return t
    if isinstance(t, list):
        return [dump(x) for x in t]
    return {'__t': t[0], 'a': [dump(x) for x in t[1:]]}
