"""Engine for the solver-object properties (C07, C12, C13): theorems about the solver state machine over
an oracle + correspondence of call traces (O4) with the real SchedulingSolver, the model being driven by the
recorded z3 answers; plus brute-force cross-checks on tiny instances (support for the search, not the proof)."""
import collections
import contextlib
import io
import json
import multiprocessing as mp
import os
import random
import subprocess
import time
import traceback
import warnings

import common
import gen
import modelrun
import terms
from terms import Z, N, P, Some, optZ

CONFIG = {
    'C07': dict(n=(60, 800), mode='optimize'),
    'C12': dict(n=(50, 600), mode='enumerate'),
    'C13': dict(n=(70, 900), mode='history'),
}

OBJ_KINDS = ['makespan', 'flowtime', 'priorities', 'start_latest', 'greatest_start', 'indicator_min', 'indicator_max',
             'bounded_min', 'bounded_min_tight', 'bounded_min_tight', 'bounded_max', 'bounded_max', 'multi', 'multi_weighted',
             'weighted_tradeoff', 'optional_bound', 'weight_zero', 'cost_mixed', 'utilization_max']


# ----------------------------------------------------------------------------------------------
def small_program(r, with_opt=True):
    hz = r.choice([5, 6, 7, 8])
    ops = [('ONewProblem', optZ(hz))]
    nt = r.randint(1, 3)
    for i in range(1, nt + 1):
        x = r.random()
        if x < 0.15:
            kind = ('KZero',)
        elif x < 0.8:
            kind = ('KFixed', Z(r.choice([1, 2, 3])))
        else:
            kind = ('KVar', Z(1), optZ(r.choice([2, 3])), None)
        opt = with_opt and r.random() < 0.3
        ops.append(('ONewTask', N(i), kind, opt, Z(0), optZ(r.choice([None, None, 1])), optZ(r.choice([None, None, 4, 6])),
                    r.random() < 0.5, Z(r.choice([1, 1, 2, 3]))))
    if r.random() < 0.5:
        ops.append(('ONewWorker', N(1), Z(1), ('CostConst', Z(r.choice([0, 2])))))
        for i in range(1, nt + 1):
            if r.random() < 0.7:
                ops.append(('OAddRequired', N(i), ('ArgW', ('WPlain', N(1))), False, Z(0), Z(0)))
    elif r.random() < 0.4:
        # two interchangeable workers behind a selection: the same timing exists with either of them
        ops.append(('ONewWorker', N(1), Z(1), ('CostConst', Z(0))))
        ops.append(('ONewWorker', N(2), Z(1), ('CostConst', Z(0))))
        ops.append(('ONewSelect', N(1), [('RW', ('WPlain', N(1))), ('RW', ('WPlain', N(2)))], Z(1), (r.choice(['PbExact', 'PbMin']),)))
        for i in r.sample(range(1, nt + 1), r.choice([1, min(2, nt)])):
            ops.append(('OAddRequired', N(i), ('ArgS', N(1)), False, Z(0), Z(0)))
    c = 1
    for _ in range(r.randint(0, 2)):
        k = r.choice(['CPrecedence', 'CStartAfter', 'CEndBefore', 'CDontOverlap'])
        a, b = r.randint(1, nt), r.randint(1, nt)
        if k == 'CPrecedence':
            e = (k, N(a), N(b), Z(r.choice([0, 1])), (r.choice(['Lax', 'Strict']),))
        elif k == 'CStartAfter':
            e = (k, N(a), Z(r.choice([1, 2, 3])), False)
        elif k == 'CEndBefore':
            e = (k, N(a), Z(r.choice([3, 4, 6])), False)
        else:
            if a == b:
                continue
            e = (k, N(a), N(b))
        ops.append(('ONewConstraint', N(c), False, e))
        c += 1
    return ops


def gen_case(r, mode, k=None):
    prog = small_program(r)
    case = {'prog': prog, 'objs': [], 'cfg': {}, 'history': []}
    if mode == 'optimize':
        # every objective kind in turn (stratified: a quick run covers each kind several times), the random draw is kept so
        # that the stream is the same
        drawn = r.choice(OBJ_KINDS)
        case['objs'] = [drawn if k is None else OBJ_KINDS[k % len(OBJ_KINDS)]]
        case['cfg'] = dict(max_iter=r.choice([None, None, None, 1, 2, 3, 0]), optimizer='incremental')
        case['history'] = [('solve',)]
    elif mode == 'enumerate':
        if r.random() < 0.3:
            # enumeration after an optimisation (the bounds of the optimiser must not survive it)
            case['objs'] = [r.choice(['bounded_max', 'bounded_max', 'makespan', 'flowtime'])]
            case['cfg'] = dict(max_iter=r.choice([None, None, 2]), optimizer='incremental')
        case['history'] = [('solve',)] + [r.choice([('find_another',)] * 5 + [('find_another_var', r.randint(0, 3))])
                                          for _ in range(r.choice([3, 6, 40, 40]))]
    else:
        if r.random() < 0.6:
            case['objs'] = [r.choice(OBJ_KINDS)]
            case['cfg'] = dict(max_iter=r.choice([None, None, 1, 2, 3]), optimizer=r.choice(['incremental', 'incremental', 'incremental', 'optimize']))
        opsl = [('solve',), ('solve',), ('solve',), ('find_another',), ('find_another',), ('find_another_var', 0), ('initialize',), ('export',)]
        case['history'] = [r.choice(opsl) for _ in range(r.randint(2, 6))]
        if not case['objs'] and r.random() < 0.3:
            # no horizon: the horizon is a variable of the problem, asking for other solutions must not pin it
            case['prog'] = [('ONewProblem', None) if o[0] == 'ONewProblem' else o for o in case['prog']]
    # options that only change what is printed / where the search starts (own generator: the main stream is unchanged)
    r2 = random.Random(r.random())
    if mode != 'optimize' and r2.random() < 0.3:
        case['cfg'] = dict(case['cfg'], verbosity=r2.choice([1, 2]))
    elif mode != 'optimize' and r2.random() < 0.15:
        case['cfg'] = dict(case['cfg'], random_values=True)
    return case


# ----------------------------------------------------------------------------------------------
def add_objectives(ps, im, kinds, r):
    pb = im.pb
    tasks = list(im.tasks.values())
    for k in kinds:
        if k == 'makespan':
            ps.ObjectiveMinimizeMakespan()
        elif k == 'flowtime':
            ps.ObjectiveMinimizeFlowtime()
        elif k == 'priorities':
            ps.ObjectivePriorities()
        elif k == 'start_latest':
            ps.ObjectiveTasksStartLatest()
        elif k == 'greatest_start':
            ps.ObjectiveMinimizeGreatestStartTime()
        elif k in ('indicator_min', 'indicator_max', 'bounded_min'):
            expr = sum([(i + 1) * t._end for i, t in enumerate(tasks)])
            kw = {}
            if k == 'bounded_min':
                kw['bounds'] = (r.choice([0, 3, 6]), 1000)
            ind = ps.IndicatorFromMathExpression(name='UserInd', expression=expr, **kw)
            if k == 'indicator_max':
                ps.ObjectiveMaximizeIndicator(target=ind, weight=1)
            else:
                ps.ObjectiveMinimizeIndicator(target=ind, weight=1)
        elif k == 'bounded_min_tight':
            # minimisation whose declared lower bound is a true bound and is attained (usually by the first model)
            import z3
            t = tasks[0]
            ind = ps.IndicatorFromMathExpression(name='StartOfFirst', expression=z3.If(t._start < 0, 0, t._start), bounds=(0, 1000))
            ps.ObjectiveMinimizeIndicator(target=ind, weight=1)
        elif k == 'bounded_max':
            # the declared upper bound is a true bound and is attainable: the loop stops on it (bound stop)
            import z3
            b = r.choice([1, 2, 3])
            t = tasks[0]
            ind = ps.IndicatorFromMathExpression(name='CappedStart', expression=z3.If(t._start > b, b, t._start), bounds=(0, b))
            ps.ObjectiveMaximizeIndicator(target=ind, weight=1)
        elif k == 'multi':
            ps.ObjectiveMinimizeMakespan()
            ps.ObjectiveMinimizeFlowtime()
        elif k == 'optional_bound':
            # an optional IndicatorBounds on the indicator that is then optimised: the solver may leave it unapplied, so it is
            # not a bound of the objective
            t = tasks[0]
            ind = ps.IndicatorFromMathExpression(name='StartOfFirstFree', expression=t._start)
            if r.random() < 0.5:
                ps.IndicatorBounds(indicator=ind, lower_bound=r.choice([1, 2, 3]), optional=True)
                ps.ObjectiveMinimizeIndicator(target=ind, weight=1)
            else:
                ps.IndicatorBounds(indicator=ind, upper_bound=r.choice([0, 0, 1]), optional=True)
                ps.ObjectiveMaximizeIndicator(target=ind, weight=1)
        elif k == 'weighted_tradeoff':
            # two objectives that pull in opposite directions, so that the weights decide: WA (3 long) and WB (2 long) cannot
            # overlap; with weight 3 on the end of WA and 1 on the end of WB the optimum runs WA first (3*3 + 5 = 14 against
            # 3*5 + 2 = 17), with equal weights it would run WB first
            wa = ps.FixedDurationTask(name='WA', duration=3)
            wb = ps.FixedDurationTask(name='WB', duration=2)
            ps.TasksDontOverlap(task_1=wa, task_2=wb)
            ind = ps.IndicatorFromMathExpression(name='EndWB', expression=wb._end)
            pb._verif_declared = [(wa._end, 3), (wb._end, 1)]
            if r.random() < 0.5:
                ps.Objective(name='RawEndWA', target=wa._end, weight=3, kind='minimize')
                ps.ObjectiveMinimizeIndicator(target=ind, weight=1)
            else:
                # the dominating weight on the objective declared second
                ps.ObjectiveMinimizeIndicator(target=ind, weight=1)
                ps.Objective(name='RawEndWA', target=wa._end, weight=3, kind='minimize')
        elif k == 'weight_zero':
            # WA and WB cannot overlap; only the end of WA counts (weight 0 on the end of WB): WA runs first
            wa = ps.FixedDurationTask(name='WA', duration=3)
            wb = ps.FixedDurationTask(name='WB', duration=2)
            ps.TasksDontOverlap(task_1=wa, task_2=wb)
            inda = ps.IndicatorFromMathExpression(name='EndWA', expression=wa._end)
            indb = ps.IndicatorFromMathExpression(name='EndWB', expression=wb._end)
            ps.ObjectiveMinimizeIndicator(target=indb, weight=0)
            ps.ObjectiveMinimizeIndicator(target=inda, weight=1)
            pb._verif_declared = [(wb._end, 0), (wa._end, 1)]
        elif k == 'cost_mixed':
            # built-in cost objective whose value may be negative: one worker is paid, the other one brings money in; with both
            # durations at their minimum the total is 0, the optimum is lower (the indicator has no natural bound)
            wp = ps.Worker(name='Paid', cost=ps.ConstantFunction(value=2))
            wn = ps.Worker(name='Refund', cost=ps.ConstantFunction(value=-2))
            ta = ps.VariableDurationTask(name='CA', min_duration=1, max_duration=2)
            tb = ps.VariableDurationTask(name='CB', min_duration=1, max_duration=r.choice([2, 3]))
            ta.add_required_resource(wp)
            tb.add_required_resource(wn)
            ps.ObjectiveMinimizeResourceCost(list_of_resources=[wp, wn])
        elif k == 'utilization_max':
            # built-in utilisation objective on a worker created for it
            wu = ps.Worker(name='Util')
            tu = ps.VariableDurationTask(name='CU', min_duration=1, max_duration=3)
            tu.add_required_resource(wu)
            ps.ObjectiveMaximizeResourceUtilization(resource=wu)
        elif k == 'multi_weighted':
            # weighted sum of a raw expression objective and an indicator objective
            w1, w2 = r.choice([2, 3]), r.choice([0, 1, 2])       # a weight of 0 switches an objective off
            ps.Objective(name='RawEnd', target=tasks[0]._end, weight=w1, kind='minimize')
            ind = ps.IndicatorFromMathExpression(name='LastStart', expression=tasks[-1]._start)
            ps.ObjectiveMinimizeIndicator(target=ind, weight=w2)
            pb._verif_declared = [(tasks[0]._end, w1), (tasks[-1]._start, w2)]


def run_case(args):
    idx, case, seed = args
    import z3
    import solverproxy as sp
    sp.install()
    import processscheduler as ps
    import processscheduler.solver as pssolver
    import impl
    out = {'idx': idx, 'error': None}
    try:
        r = random.Random(seed * 7919 + idx)
        case['_rseed'] = seed * 7919 + idx
        im = impl.Impl()
        res = im.run(case['prog'])
        if res[0] != 'ok':
            out['skipped'] = 'program rejected'
            return out
        with contextlib.redirect_stdout(io.StringIO()):
            add_objectives(ps, im, case['objs'], r)
        sp.reset()
        # mark the initialisation phase in the trace
        orig_init = ps.SchedulingSolver.initialize

        def wrapped_init(self):
            sp.LOG.append(('init_begin',))
            try:
                return orig_init(self)
            finally:
                sp.LOG.append(('init_end', list(self._solver.assertions())))
        ps.SchedulingSolver.initialize = wrapped_init
        try:
            cfg = {k: v for k, v in case['cfg'].items() if v is not None}
            with contextlib.redirect_stdout(io.StringIO()), warnings.catch_warnings():
                warnings.simplefilter('ignore')
                solver = ps.SchedulingSolver(problem=im.pb, max_time=600, **cfg)
            tasks = list(im.pb.tasks.values())
            varlist = []
            for t in tasks:
                varlist += [t._start, t._end]
            outs = []
            marks = []
            returned = []
            case['history'] = [(o[0], o[1] % len(varlist)) if o[0] == 'find_another_var' else tuple(o) for o in case['history']]
            out['history'] = case['history']
            for op in case['history']:
                start = len(sp.LOG)
                cur_model = solver._model
                try:
                    with contextlib.redirect_stdout(io.StringIO()), warnings.catch_warnings():
                        warnings.simplefilter('ignore')
                        if op[0] == 'solve':
                            s = solver.solve()
                        elif op[0] == 'find_another':
                            s = solver.find_another_solution()
                        elif op[0] == 'find_another_var':
                            s = solver.find_another_solution_for_variable(varlist[op[1]])
                        elif op[0] == 'initialize':
                            solver.initialize()
                            s = DONE
                        else:
                            fn = os.path.join(case['work'], 'exp_%d_%d.smt2' % (os.getpid(), idx))
                            solver.export_to_smt2(fn)
                            os.remove(fn)
                            s = DONE
                    if s is DONE:
                        outs.append(('done',))
                    elif s is False:
                        outs.append(('none',))
                    else:
                        outs.append(('ret', sp.MODELS.get(id(solver._model)), solution_summary(s)))
                        returned.append((len(outs) - 1, s))
                except (AssertionError, ValueError, TypeError, AttributeError, z3.Z3Exception) as e:
                    outs.append(('raised', type(e).__name__ + ': ' + str(e)[:100]))
                marks.append((start, len(sp.LOG), cur_model))
                if outs[-1][0] == 'raised':
                    break
        finally:
            ps.SchedulingSolver.initialize = orig_init
        analyse(out, case, solver, tasks, varlist, outs, marks, sp, z3)
        # what a solver is given at initialisation is a function of the problem alone: the same after a second initialize(),
        # and the same for a second solver object created on the problem after this one has been used
        inits = [ev[1] for ev in sp.LOG if ev[0] == 'init_end']
        if inits and not out.get('known_only'):
            def akey(asserts):
                return sorted(a.sexpr() for a in asserts)
            k0 = akey(inits[0])
            for j, a in enumerate(inits[1:]):
                kj = akey(a)
                if kj != k0:
                    d = [x for x in k0 if x not in kj] + [x for x in kj if x not in k0]
                    out.setdefault('sem', []).append(('initialize-again-gives-another-constraint-system', j + 1, (d[0] if d else 'multiplicity')[:200]))
                    break
            try:
                with contextlib.redirect_stdout(io.StringIO()), warnings.catch_warnings():
                    warnings.simplefilter('ignore')
                    solver2 = ps.SchedulingSolver(problem=im.pb, max_time=600, **cfg)
                    solver2.initialize()
                k2 = akey(solver2._solver.assertions())
                if k2 != k0:
                    d = [x for x in k0 if x not in k2] + [x for x in k2 if x not in k0]
                    out.setdefault('sem', []).append(('second-solver-on-the-problem-gets-another-constraint-system', None, (d[0] if d else 'multiplicity')[:200]))
            except (AssertionError, ValueError) as e:
                if 'already exists' not in str(e):      # F22 (multi-objective problem initialised twice)
                    out.setdefault('sem', []).append(('second-solver-on-the-problem-raises', None, str(e)[:200]))
        # a solution handed to the caller does not change when the solver is used again, and its two views agree
        for (k, sobj) in returned:
            now = solution_summary(sobj)
            if now != outs[k][2]:
                out.setdefault('sem', []).append(('returned-solution-changed-afterwards', k, None))
                break
        for (k, sobj) in returned:
            summ = outs[k][2]
            bad = None
            for tn, ws in summ['assigned'].items():
                for w in ws:
                    if w in summ['resources'] and not any(a[0] == tn for a in summ['resources'][w]):
                        bad = (tn, w)
            for w, asg in summ['resources'].items():
                for a in asg:
                    if a[0] in summ['assigned'] and w not in summ['assigned'][a[0]]:
                        bad = (a[0], w)
            if bad:
                out.setdefault('sem', []).append(('task-and-resource-views-disagree', k, bad))
                break
    except Exception as e:
        out['error'] = traceback.format_exc()[-1500:]
    return out


DONE = object()


def builtin_value(case, several, z3):
    """the value reached by optimizer='optimize' on the problem of the case, rebuilt from scratch: the single objective's
    target, or the weighted sum written down from the declared weights; None = no solution, 'skip' = not comparable"""
    import processscheduler as ps
    import impl
    try:
        r = random.Random(case['_rseed'])
        im = impl.Impl()
        if im.run(case['prog'])[0] != 'ok':
            return 'skip'
        with contextlib.redirect_stdout(io.StringIO()), warnings.catch_warnings():
            warnings.simplefilter('ignore')
            add_objectives(ps, im, case['objs'], r)
            kw = dict(optimize_priority='weight') if several else {}
            solver = ps.SchedulingSolver(problem=im.pb, max_time=600, optimizer='optimize', **kw)
            sol = solver.solve()
        if sol is False or solver._model is None:
            return None
        objs = [o for o in im.pb.objectives.values() if o.name != 'MinimizeEquivalentObjective']
        if not objs:
            return 'skip'
        if several:
            if len({o.kind for o in objs}) > 1:
                return 'skip'
            decl = getattr(im.pb, '_verif_declared', None)
            expr = z3.Sum([w_ * t_ for t_, w_ in decl]) if decl else z3.Sum([o.weight * o._target for o in objs])
        else:
            expr = objs[0]._target
        return solver._model.eval(expr, model_completion=True).as_long()
    except Exception:
        return 'skip'


def solution_summary(s):
    return {'tasks': {n: (t.start, t.end, t.scheduled) for n, t in s.tasks.items()}, 'horizon': s.horizon,
            'indicators': dict(s.indicators),
            'assigned': {n: list(t.assigned_resources) for n, t in s.tasks.items()},
            'resources': {n: [tuple(a) for a in rr.assignments] for n, rr in s.resources.items()}}


def proj_of_model(m, tasks, z3):
    out = []
    for t in tasks:
        out.append(m.eval(t._start, model_completion=True).as_long())
        out.append(m.eval(t._end, model_completion=True).as_long())
        if isinstance(t._scheduled, z3.BoolRef):
            out.append(z3.is_true(m.eval(t._scheduled, model_completion=True)))
        else:
            out.append(True)
    return tuple(out)


def equivalent(a, b, z3, sp):
    s = sp.ORIG_SOLVER()
    s.set('timeout', 10000)
    s.add(a != b)
    return s.check() == z3.unsat


def analyse(out, case, solver, tasks, varlist, outs, marks, sp, z3):
    """turn the recorded trace into (i) the model's inputs (script, values) and (ii) the implementation's
    event lines; validate the content of every added assertion against the oracle contract"""
    log = sp.LOG
    models = {}
    answers = {}
    for ev in log:
        if ev[0] == 'check':
            answers[ev[1]] = ev[2]
        elif ev[0] == 'model':
            models[ev[1]] = ev[2]
    obj = solver._objective
    use_loop = obj is not None and case['cfg'].get('optimizer', 'incremental') == 'incremental' and len(im_objectives(solver)) > 0
    target = obj._target if obj is not None else None
    direction = None
    bound = None
    if use_loop:
        direction = 'Minimize' if obj.kind == 'minimize' else 'Maximize'
        if obj._bounds is not None:
            bound = obj._bounds[0] if obj.kind == 'minimize' else obj._bounds[1]
            # only the harness declares bounds, and only true ones (the hypothesis of C07_bound_stop): an objective that carries
            # bounds nobody declared would make the loop stop on a value that is no bound
            natural = case.get('objs') and case['objs'][0] == 'utilization_max' and tuple(obj._bounds) == (0, 100)   # a percentage
            if case.get('objs') and case['objs'][0] not in ('bounded_min', 'bounded_min_tight', 'bounded_max') and not natural:
                out.setdefault('presem', []).append(('objective-carries-bounds-nobody-declared', str(obj._bounds), None))
                bound = None
    nchecks = (max(answers) + 1) if answers else 0
    values = []
    for k in range(nchecks):
        if k in models and target is not None:
            values.append(models[k].eval(target, model_completion=True).as_long())
        else:
            values.append(0)
    lines = []
    content_bad = []
    base = None
    in_init = False
    for (start, end, cur_model), o in zip(marks, outs):
        last_sat = None
        for ev in log[start:end]:
            if ev[0] == 'init_begin':
                in_init = True
            elif ev[0] == 'init_end':
                in_init = False
                base = ev[1]
            elif in_init:
                continue
            elif ev[0] == 'check':
                lines.append('EV check %d %s' % (ev[1], ev[2]))
                if ev[2] == 'sat':
                    last_sat = ev[1]
            elif ev[0] == 'push':
                lines.append('EV push')
            elif ev[0] == 'pop':
                lines.append('EV pop')
            elif ev[0] == 'add':
                f = ev[1]
                # classify by the contract it must meet
                if use_loop and last_sat is not None and last_sat in models:
                    z = values[last_sat]
                    want = (target < z) if direction == 'Minimize' else (target > z)
                    if equivalent(f, want, z3, sp):
                        lines.append('EV add better %s' % show_z(z))
                        continue
                if cur_model is not None and id(cur_model) in sp.MODELS:
                    mk = sp.MODELS[id(cur_model)]
                    pm = proj_of_model(cur_model, tasks, z3)
                    diffs = []
                    j = 0
                    for t in tasks:
                        diffs.append(t._start != pm[j])
                        diffs.append(t._end != pm[j + 1])
                        if isinstance(t._scheduled, z3.BoolRef):
                            diffs.append(t._scheduled != pm[j + 2])
                        j += 3
                    if equivalent(f, z3.Or(diffs), z3, sp):
                        lines.append('EV add differs %d' % mk)
                        continue
                    hit = False
                    for xi, v in enumerate(varlist):
                        val = cur_model.eval(v, model_completion=True).as_long()
                        if equivalent(f, v != val, z3, sp):
                            lines.append('EV add diffvar %d %d' % (xi, mk))
                            hit = True
                            break
                    if hit:
                        continue
                content_bad.append(f.sexpr()[:200])
                lines.append('EV add ?')
            elif ev[0] in ('minimize', 'maximize', 'track', 'solverfor', 'model'):
                pass
        if o[0] == 'ret':
            lines.append('OUT ret %s' % o[1])
        elif o[0] == 'none':
            lines.append('OUT none')
        elif o[0] == 'raised':
            lines.append('OUT raised')
        else:
            lines.append('OUT done')
    out.update(dict(lines=lines, content_bad=content_bad, outs=[(o[0], o[1] if len(o) > 1 else None) for o in outs],
                    script=[answers.get(k, 'unknown') for k in range(nchecks)], values=values, direction=direction,
                    bound=bound, use_loop=use_loop, nchecks=nchecks))
    # ---- semantic cross-checks on the real solver (tiny instances) ----
    sem = []
    if any(o[0] == 'raised' and 'already exists' in (o[1] or '') for o in outs):
        # known finding F22: initialising a multi-objective problem twice registers the equivalent objective twice
        out['sem'] = [('reinit-multiobjective', None, None)]
        out['known_only'] = True
        return
    if base is not None:
        # every returned solution satisfies the base assertions
        for o in outs:
            if o[0] == 'ret' and o[1] is not None and o[1] in models:
                m = models[o[1]]
                bad = [a for a in base if not z3.is_true(m.eval(a, model_completion=True))]
                if bad and not any(z3.is_quantifier(a) for a in bad):
                    sem.append(('invalid-solution', o[1], bad[0].sexpr()[:200]))
        mode = case.get('mode')
        feasible = None

        def base_check(extra=()):
            s = sp.ORIG_SOLVER()
            s.set('timeout', 20000)
            for a in base:
                s.add(a)
            for a in extra:
                s.add(a)
            return s
        if mode == 'optimize' and use_loop:
            s = base_check()
            r0 = s.check()
            final = outs[-1]
            if r0 == z3.sat:
                # reference optimum by an independent descent
                best = s.model().eval(target, model_completion=True).as_long()
                while True:
                    s.push()
                    s.add(target < best if direction == 'Minimize' else target > best)
                    if s.check() == z3.sat:
                        best = s.model().eval(target, model_completion=True).as_long()
                        s.pop()
                    else:
                        s.pop()
                        break
                    if abs(best) > 10 ** 6:
                        best = None
                        break
                out['ref_opt'] = best
                # several objectives: the reference is the weighted sum written down by the harness itself from the
                # declared weights and targets (not the library's EquivalentSingleObjective variable)
                objs_decl = list(solver.problem.objectives.values())
                own = None
                if len([o2 for o2 in objs_decl if o2.name != 'MinimizeEquivalentObjective']) > 1:
                    decl = getattr(solver.problem, '_verif_declared', None)
                    own = z3.Sum([w_ * t_ for t_, w_ in decl]) if decl else \
                        z3.Sum([o2.weight * o2._target for o2 in objs_decl if o2.name != 'MinimizeEquivalentObjective'])
                    s3 = base_check()
                    if s3.check() == z3.sat:
                        b2 = s3.model().eval(own, model_completion=True).as_long()
                        for _ in range(200):
                            s3.push()
                            s3.add(own < b2 if direction == 'Minimize' else own > b2)
                            if s3.check() == z3.sat:
                                b2 = s3.model().eval(own, model_completion=True).as_long()
                                s3.pop()
                            else:
                                s3.pop()
                                break
                        out['ref_weighted'] = b2
                        if final[0] == 'ret' and final[1] in models and answers.get(nchecks - 1) == 'unsat':
                            got2 = models[final[1]].eval(own, model_completion=True).as_long()
                            if got2 != b2:
                                sem.append(('weighted-sum-not-optimal', got2, b2))
                if final[0] == 'ret' and final[1] in models and best is not None:
                    got = values[final[1]]
                    completed = (answers.get(nchecks - 1) == 'unsat')
                    if completed and got != best:
                        sem.append(('not-optimal', got, best))
                    # no worse than any earlier incumbent
                    earlier = [values[k] for k in range(final[1] + 1) if answers.get(k) == 'sat']
                    for v in earlier:
                        if (direction == 'Minimize' and got > v) or (direction == 'Maximize' and got < v):
                            sem.append(('worse-than-incumbent', got, v))
                            break
                    if bound is not None and got == bound and not completed:
                        out['bound_stop'] = True
                elif final[0] == 'none' and case['cfg'].get('max_iter') != 0 and answers.get(0) != 'unknown':
                    sem.append(('feasible-but-none', None, None))
            elif r0 == z3.unsat and final[0] == 'ret':
                sem.append(('infeasible-but-solution', None, None))
            # "the incremental and the built-in optimiser agree on that value": the same problem, built again from scratch,
            # solved by z3.Optimize (weight mode when there are several objectives), against the reference optimum
            if r0 == z3.sat and out.get('ref_opt') is not None and case.get('_rseed') is not None:
                nobj = len([o2 for o2 in solver.problem.objectives.values() if o2.name != 'MinimizeEquivalentObjective'])
                ref = out.get('ref_weighted') if nobj > 1 else out['ref_opt']
                if ref is not None:
                    got_b = builtin_value(case, nobj > 1, z3)
                    out['builtin_value'] = got_b
                    if got_b is not None and got_b != 'skip' and got_b != ref:
                        # z3.Optimize itself is not reliable (finding F47: raw z3 4.12 returns a non-optimal model in about one
                        # run in ten on some tiny problems, whatever the priority mode): a defect of the library shows on every
                        # attempt, z3's on some of them only -- the problem is rebuilt and solved twice more
                        again = [builtin_value(case, nobj > 1, z3) for _ in range(2)]
                        out['builtin_value_retries'] = again
                        if all(g is not None and g != 'skip' and g != ref for g in again):
                            sem.append(('builtin-optimizer-disagrees', [got_b] + again, ref))
                        else:
                            sem.append(('builtin-optimizer-unreliable', [got_b] + again, ref))
        if mode == 'enumerate':
            # brute force: all distinct projections of the base
            s = base_check()
            allp = set()
            while len(allp) < 400 and s.check() == z3.sat:
                m = s.model()
                pm = proj_of_model(m, tasks, z3)
                allp.add(pm)
                diffs = []
                j = 0
                for t in tasks:
                    diffs.append(t._start != pm[j])
                    diffs.append(t._end != pm[j + 1])
                    if isinstance(t._scheduled, z3.BoolRef):
                        diffs.append(t._scheduled != pm[j + 2])
                    j += 3
                s.add(z3.Or(diffs))
            out['n_schedules'] = len(allp)
            got = []
            only_all = True
            for op, o in zip(case['history'], outs):
                if op[0] == 'find_another_var':
                    only_all = False
                if o[0] == 'ret' and o[1] in models:
                    got.append(proj_of_model(models[o[1]], tasks, z3))
            if only_all:
                if len(set(got)) != len(got):
                    sem.append(('duplicate-schedule', len(got), len(set(got))))
                if any(g not in allp for g in got) and len(allp) < 400:
                    sem.append(('schedule-not-valid', None, None))
                if outs[-1][0] == 'none' and len(allp) < 400 and answers.get(nchecks - 1) == 'unsat' and set(got) != allp:
                    sem.append(('not-exhaustive', len(got), len(allp)))
                if all(o[0] == 'ret' for o in outs) and len(outs) > len(allp) and len(allp) < 400:
                    sem.append(('more-than-exist', len(outs), len(allp)))
            first_none_check(sem, case, outs, models, tasks, answers, base_check, z3)
        if mode == 'history' and not case.get('objs'):
            first_none_check(sem, case, outs, models, tasks, answers, base_check, z3)
        if mode == 'history':
            # a solve()/find_another that says "no solution" while base + own blocking clauses is satisfiable
            perm = list(base)
            s = base_check()
            if s.check() == z3.sat:
                first_none = None
                blockers = 0
                for op, o in zip(case['history'], outs):
                    if op[0] in ('find_another', 'find_another_var') and o[0] != 'raised':
                        blockers += 1
                    if op[0] == 'initialize':
                        blockers = 0
                    # (Pareto mode: successive solves walk the front and end with failure by design -- excluded by the property)
                    pareto = case['cfg'].get('optimizer') == 'optimize' and len(solver.problem.objectives) > 1
                    if op[0] == 'solve' and o[0] == 'none' and blockers == 0 and case['cfg'].get('max_iter') != 0 and not pareto:
                        if 'unknown' not in answers.values():
                            sem.append(('feasible-reported-infeasible', None, None))
                            break
    out['sem'] = sem + out.pop('presem', [])


def first_none_check(sem, case, outs, models, tasks, answers, base_check, z3):
    """the first request for another solution that fails ("no other solution") comes after every schedule has been returned:
    otherwise a plain solver finds a valid schedule that differs from all those returned since the last initialisation"""
    before = []
    for op, o in zip(case['history'], outs):
        if op[0] == 'find_another_var':
            return          # a request on one variable excludes more than the current schedule
        if op[0] == 'initialize':
            before = before[-1:]     # the blocking clauses are dropped; the current solution is kept, the next request excludes it
        if o[0] == 'ret' and o[1] in models:
            before.append(proj_of_model(models[o[1]], tasks, z3))
        elif o[0] == 'none' and op[0] == 'find_another':
            if 'unknown' not in answers.values() and not any(x[0] == 'not-exhaustive' for x in sem):
                sx = base_check()
                for pm in set(before):
                    diffs = []
                    j = 0
                    for t in tasks:
                        diffs.append(t._start != pm[j])
                        diffs.append(t._end != pm[j + 1])
                        if isinstance(t._scheduled, z3.BoolRef):
                            diffs.append(t._scheduled != pm[j + 2])
                        j += 3
                    sx.add(z3.Or(diffs))
                if sx.check() == z3.sat:
                    sem.append(('not-exhaustive', len(set(before)), 'another valid schedule exists: %s'
                                % (proj_of_model(sx.model(), tasks, z3),)))
            return


def im_objectives(solver):
    return list(solver.problem.objectives)


def show_z(z):
    return str(z) if z >= 0 else '(- %d)' % (-z)


# ----------------------------------------------------------------------------------------------
def model_reports(ctx, cases_in):
    """run the extracted solver model on (config, ops) cases"""
    d = os.path.join(ctx.work, 'mlsolver')
    os.makedirs(d, exist_ok=True)
    opmap = {'solve': 'OpSolve', 'find_another': 'OpFindAnother', 'initialize': 'OpInitialize', 'export': 'OpExport'}
    with open(os.path.join(d, 'cases.ml'), 'w') as f:
        f.write('open Model\nopen Helpers\n')
        for i, c in enumerate(cases_in):
            obj = 'None'
            if c['direction']:
                obj = 'Some (%s, %s)' % (c['direction'], 'None' if c['bound'] is None else 'Some (z_ (%d))' % c['bound'])
            mi = 'None' if c['max_iter'] is None else 'Some (n_ %d)' % c['max_iter']
            script = '; '.join({'sat': 'SSat', 'unsat': 'SUnsat'}.get(a, 'SUnknown') for a in c['script'])
            vals = '; '.join('z_ (%d)' % v for v in c['values'])
            ops = '; '.join(opmap[o[0]] if o[0] in opmap else 'OpFindAnotherVar (n_ %d)' % o[1] for o in c['ops'])
            f.write('let c%d = ({ sc_objective = %s; sc_max_iter = %s; sc_script = [%s]; sc_values = [%s]; sc_stops = []; sc_fuel = n_ 200 }, [%s])\n'
                    % (i, obj, mi, script, vals, ops))
        f.write('let cases = [' + '; '.join('c%d' % i for i in range(len(cases_in))) + ']\n')
    with open(os.path.join(d, 'main.ml'), 'w') as f:
        f.write('let str (l : char list) : string = String.of_seq (List.to_seq l)\n'
                'let () = List.iteri (fun i (c, ops) -> print_string ("CASE " ^ string_of_int i ^ "\\n");\n'
                '  List.iter (fun l -> print_string (str l); print_char \'\\n\') (Model.solver_report c ops)) Cases.cases\n')
    cmd = ['ocamlfind', 'ocamlopt', '-w', '-a', '-I', modelrun.GEN, os.path.join(modelrun.GEN, 'model.cmx'),
           os.path.join(modelrun.GEN, 'helpers.cmx'), 'cases.ml', 'main.ml', '-o', 'run']
    r = subprocess.run(['bash', '-c', 'ulimit -s unlimited 2>/dev/null; exec "$@"', 'sh'] + cmd, cwd=d, capture_output=True, text=True, timeout=600)
    if r.returncode != 0:
        raise RuntimeError('ocaml build failed: ' + r.stderr[:2000])
    r = subprocess.run(['./run'], cwd=d, capture_output=True, text=True, timeout=600)
    reports = []
    cur = None
    for line in r.stdout.split('\n'):
        if line.startswith('CASE '):
            cur = []
            reports.append(cur)
        elif line and cur is not None:
            cur.append(line)
    return reports


def kernel_reports(ctx, cases_in):
    """same through coqc vm_compute (cross-check of extraction)"""
    opmap = {'solve': 'OpSolve', 'find_another': 'OpFindAnother', 'initialize': 'OpInitialize', 'export': 'OpExport'}
    vf = os.path.join(ctx.work, 'ksolver.v')
    with open(vf, 'w') as f:
        f.write('From Coq Require Import ZArith List Bool String.\nFrom PS.model Require Import Smt SolverSM SolverInst.\n'
                'Import ListNotations.\nOpen Scope string_scope.\n')
        for i, c in enumerate(cases_in):
            obj = 'None'
            if c['direction']:
                obj = '(Some (%s, %s))' % (c['direction'], 'None' if c['bound'] is None else '(Some (%d)%%Z)' % c['bound'])
            mi = 'None' if c['max_iter'] is None else '(Some %d%%nat)' % c['max_iter']
            script = '; '.join({'sat': 'SSat', 'unsat': 'SUnsat'}.get(a, 'SUnknown') for a in c['script'])
            vals = '; '.join('(%d)%%Z' % v for v in c['values'])
            ops = '; '.join(opmap[o[0]] if o[0] in opmap else '(OpFindAnotherVar %d%%nat)' % o[1] for o in c['ops'])
            f.write('Eval vm_compute in ("CASE" :: solver_report {| sc_objective := %s; sc_max_iter := %s; sc_script := [%s]; '
                    'sc_values := [%s]; sc_stops := []; sc_fuel := 200%%nat |} [%s]).\n' % (obj, mi, script, vals, ops))
    r = subprocess.run(['coqc'] + common.COQFLAGS + [vf], cwd=common.COQ, capture_output=True, text=True, timeout=1200)
    if r.returncode != 0:
        raise RuntimeError('coqc failed: ' + (r.stderr or r.stdout)[:2000])
    reps = []
    for ch in r.stdout.split(': list string'):
        if '= [' not in ch:
            continue
        reps.append([l for l in modelrun.coq_string_lines(ch) if l != 'CASE'])
    return reps


def run(ctx, replay=None):
    cfg = CONFIG[ctx.prop]
    quick = ctx.tier == 'quick'
    ok, blog = common.build(ctx)
    if not ok:
        path = common.write_replay(ctx, 'build', {'kind': 'build-failed', 'log': blog})
        common.violation(ctx, path, found_input=False)
        common.write_evidence(ctx, 'proof', {'obligations': 1, 'discharged': 0, 'checker_cmd': './build.sh',
                                             'trusted_base': common.TRUSTED_BASE, 'explanation': 'build failed'}, [])
        return
    po = common.proof_obligations(ctx.prop)
    chk_res = common.coqchk(ctx.prop) if ctx.tier == 'thorough' else None
    if chk_res is not None and not chk_res['ok']:
        path = common.write_replay(ctx, 'coqchk', {'kind': 'coqchk-failed', 'summary': chk_res['summary']})
        common.violation(ctx, path, found_input=False)
    bad = common.hygiene()
    n_obl = len(po['theorems'])
    discharged = n_obl if (po['ok'] and po['all_printed']) else 0
    if not po['ok'] or not po['all_printed'] or bad:
        path = common.write_replay(ctx, 'proof', {'kind': 'proof-obligation', 'file': po['file'], 'log': po['log'], 'hygiene': bad})
        common.violation(ctx, path, found_input=False)
    r = random.Random(ctx.seed)
    if replay is not None:
        cases = [replay['case']]
    else:
        cases = corpus_cases(ctx.prop) + [gen_case(r, cfg['mode'], k) for k in range(cfg['n'][0 if quick else 1])]
    for c in cases:
        c['mode'] = cfg['mode']
        c['work'] = ctx.work
        c['prog'] = terms.from_jsonable(c['prog']) if c['prog'] and isinstance(c['prog'][0], dict) else c['prog']
    t1 = time.time()
    ctxp = mp.get_context('fork')
    results = common.pmap(run_case, [(i, c, ctx.seed) for i, c in enumerate(cases)])
    t_impl = time.time() - t1
    # model side
    live = [res for res in results if not res.get('error') and 'lines' in res]
    cases_in = []
    for res in live:
        c = cases[res['idx']]
        nops = len(res['outs'])
        cases_in.append(dict(direction=res['direction'] if res['use_loop'] else None, bound=res['bound'],
                             max_iter=c['cfg'].get('max_iter') if res['use_loop'] else None,
                             script=res['script'], values=res['values'], ops=res['history'][:nops]))
    reports = model_reports(ctx, cases_in) if cases_in else []
    kslice = list(range(0, len(cases_in), max(1, len(cases_in) // 25)))[:25]
    kreps = kernel_reports(ctx, [cases_in[i] for i in kslice]) if cases_in else []
    kernel_mismatch = [i for i, kr in zip(kslice, kreps) if kr != reports[i]]
    if kernel_mismatch:
        path = common.write_replay(ctx, 'extraction', {'kind': 'extraction-vs-kernel', 'cases': kernel_mismatch[:3]})
        common.violation(ctx, path, found_input=False)
    stats = collections.Counter()
    trace_breaks = []
    sem_viol = []
    opcount = collections.Counter()
    for res in results:
        if res.get('error'):
            stats['harness_error'] += 1
            trace_breaks.append((res['idx'], 'harness-error', res['error'][-800:]))
    for res, rep in zip(live, reports):
        c = cases[res['idx']]
        stats['cases'] += 1
        stats['checks'] += res['nchecks']
        stats['ops'] += len(res['outs'])
        for o in c['history'][:len(res['outs'])]:
            opcount[o[0]] += 1
        for kind in c['objs'] or ['none']:
            opcount['obj:' + kind] += 1
        for o in res['outs']:
            stats['out_' + o[0]] += 1
        if 'unknown' in res['script']:
            stats['with_unknown'] += 1
        if res.get('known_only'):
            stats['known_only'] += 1
        elif res['lines'] != rep:
            first = next((i for i, (a, b) in enumerate(zip(res['lines'] + ['<end>'], rep + ['<end>'])) if a != b), None)
            trace_breaks.append((res['idx'], 'trace', {'first_difference_at': first,
                                                        'impl': res['lines'][max(0, (first or 0) - 3):(first or 0) + 3],
                                                        'model': rep[max(0, (first or 0) - 3):(first or 0) + 3]}))
        elif res['content_bad']:
            trace_breaks.append((res['idx'], 'assertion-content', res['content_bad'][:2]))
        else:
            stats['traces_agree'] += 1
        for s in res['sem']:
            sem_viol.append((res['idx'], s))
        if res.get('bound_stop'):
            stats['bound_stops'] += 1
        if 'n_schedules' in res:
            stats['brute_force_schedules'] += res['n_schedules']
    findings = common.load_findings(ctx.prop)
    open_kinds = {f['clause_kind']: f for f in findings if f['status'] == 'open'}
    reported = 0
    known_hits = collections.Counter()
    for idx, s in sem_viol:
        if s[0] in open_kinds:
            known_hits[s[0]] += 1
            continue
        if reported < 3:
            c = cases[idx]
            path = common.write_replay(ctx, 'sem', {
                'kind': 'semantic-violation', 'what': s[0], 'detail': list(s[1:]),
                'case': {'prog': terms.dump(c['prog']), 'objs': c['objs'], 'cfg': c['cfg'], 'history': c['history']},
                'program_pretty': [terms.to_coq(o) for o in c['prog']],
                'outs': [r2 for r2 in results if r2['idx'] == idx][0].get('outs')})
            common.violation(ctx, path)
        reported += 1
    if trace_breaks and reported == 0:
        idx, kind, info = trace_breaks[0]
        c = cases[idx]
        path = common.write_replay(ctx, 'trace', {
            'kind': 'correspondence-broken', 'observable': 'O4 solver call trace', 'what': kind, 'detail': info,
            'case': {'prog': terms.dump(c['prog']), 'objs': c['objs'], 'cfg': c['cfg'], 'history': c['history']},
            'program_pretty': [terms.to_coq(o) for o in c['prog']], 'count': len(trace_breaks)})
        common.violation(ctx, path, found_input=False)
    for f in findings:
        if f['status'] == 'open' and known_hits.get(f['clause_kind']):
            common.known_finding(ctx, f['text'])
    sample_cases = [{'program': [terms.to_coq(o) for o in cases[i]['prog']], 'objectives': cases[i]['objs'],
                     'config': cases[i]['cfg'], 'history': cases[i]['history']} for i in range(0, len(cases), max(1, len(cases) // 3))][:3]
    distinct = len({json.dumps([terms.dump(c['prog']), c['objs'], c['cfg'], c['history']], sort_keys=True, default=str) for c in cases})
    cov = {
        'obligations': n_obl, 'discharged': discharged,
        'checker_cmd': 'coqc %s %s  (after ./build.sh)' % (' '.join(common.COQFLAGS), po['file']),
        'trusted_base': common.TRUSTED_BASE + [
            'oracle contract (z3 is sound on sat and complete on unsat): a Section hypothesis of every theorem, not an axiom',
            'recording subclasses of z3.Solver/z3.Optimize (harness/solverproxy.py)',
            'Print Assumptions: ' + '; '.join('%s: %s' % (t, po['assumptions'].get(t, 'NOT PRINTED')) for t in po['theorems'])],
        'coqchk': ({'axioms': chk_res['axioms'], 'ok': chk_res['ok']} if chk_res else 'thorough tier only'), 'theorems': po['theorems'], 'hygiene_hits': bad,
        'evaluations': len(cases), 'distinct_nontrivial': distinct,
        'rule': 'tiny problems (<= 3 tasks, horizon <= 8) with objectives / histories drawn from seed %d; each case is one SchedulingSolver object driven through a history of calls; distinct by (program, objectives, config, history)' % ctx.seed,
        'samples': sample_cases,
        'traces_validated_against_impl': stats['traces_agree'],
        'tie': dict(stats), 'ops': dict(opcount), 'kernel_route_crosscheck': {'cases': len(kslice), 'mismatches': len(kernel_mismatch)},
        'semantic_crosschecks': {'violations': len(sem_viol), 'known_hits': dict(known_hits)},
        'timing_s': {'impl': round(t_impl, 1)},
    }
    common.write_evidence(ctx, 'proof', cov, [
        'theorems hold for every oracle meeting the contract; real wall-clock stops are not exercised (max_time=600)',
        'brute-force cross-checks only on tiny instances; they support the search for a failing input, not the proof'])


def corpus_cases(prop):
    out = []
    d = os.path.join(common.VERIF, 'corpus', prop)
    if os.path.isdir(d):
        for fn in sorted(os.listdir(d)):
            if fn.endswith('.json'):
                j = json.load(open(os.path.join(d, fn)))
                c = j['case']
                c['prog'] = terms.from_jsonable(c['prog'])
                c['history'] = [tuple(h) for h in c['history']]
                out.append(c)
    return out
