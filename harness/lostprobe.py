"""C05 search for lost schedules (support for the theorem, never a substitute): on a sampled program whose elements are all
specified exactly by Spec.v, ask z3 for a schedule that satisfies every Spec clause, pin it (start / end / duration of the
acting tasks, scheduled flags, selections, busy intervals of assigned workers) on the constraint system built by /repo and
see whether it is still satisfiable.  An unsatisfiable pinned system is a valid schedule that the implementation loses; the
tagged model assertions give a minimal set of elements that reject it."""
import random
import re

# constraint kinds whose Spec clauses characterise the documented meaning exactly (both directions)
EXACT_KINDS = {
    'CStartAt', 'CStartAfter', 'CEndAt', 'CEndBefore', 'CPrecedence', 'CStartSynced', 'CEndSynced', 'CDontOverlap',
    'CUGroup', 'COGroup', 'CForceSched', 'CDependency', 'CForceN',
    'CUnavailable', 'CWorkLoad', 'CSameWorkers', 'CDistinctWorkers', 'CPeriodicUnavailable',
}
PLAIN_OPS = {'ONewProblem', 'ONewTask', 'ONewWorker', 'ONewCumulative', 'ONewSelect', 'OAddRequired', 'ONewConstraint'}
RESOURCE_KINDS = {'CUnavailable', 'CWorkLoad', 'CPeriodicUnavailable'}


def head(x):
    return x[0] if isinstance(x, tuple) else x


def probe_ok(prog):
    """every element of the program is specified exactly, and no requirement is added after a resource constraint"""
    seen_rc = False
    used = set()
    selects = {}
    for op in prog:
        h = head(op)
        if h not in PLAIN_OPS:
            return False
        if h == 'ONewSelect':
            # listed resources: ('RW', wref) | ('RC', cumulative)
            selects[repr(op[1])] = [repr(x[1]) if x[0] == 'RW' else 'cumulative %r' % (x[1],) for x in op[2]]
        if h == 'ONewConstraint':
            if op[2]:                      # optional constraint: its meaning is "applied => ..."
                return False
            k = head(op[3])
            if k not in EXACT_KINDS:
                return False
            if k == 'CWorkLoad':
                for iv in op[3][2]:
                    lo, hi = iv[1][1], iv[1][2]
                    if _z(lo) > _z(hi):
                        return False
            if k == 'CPeriodicUnavailable':
                # specified exactly for windows 0 <= lo < hi <= period only
                period = _z(op[3][3])
                if period <= 0 or any(not (0 <= _z(iv[1]) < _z(iv[2]) <= period) for iv in op[3][2]):
                    return False
            if k in RESOURCE_KINDS:
                seen_rc = True
        if h == 'OAddRequired':
            if seen_rc:
                return False
            # one requirement per (task, worker): a worker reached twice by one task (directly, through two selections
            # that share it, ...) gets one pair of busy variables for two roles -- outside what Spec.v describes
            arg = op[2]
            if arg[0] == 'ArgS':
                ws = selects.get(repr(arg[1]))
                if ws is None:
                    return False
            elif arg[0] == 'ArgC':
                ws = ['cumulative %r' % (arg[1],)]
            else:
                ws = [repr(arg[1])]
            for w in ws:
                k = (repr(op[1]), w)
                if k in used:
                    return False
                used.add(k)
            # dynamic assignments and delays are specified, but the pinned busy interval of a dynamic one is a choice
            # of the schedule: keep them
    return True


def _z(t):
    # terms.Z(n) -> ('z', n) | int
    if isinstance(t, tuple) and len(t) == 2 and t[0] in ('z', 'Z'):
        return t[1]
    return t


def schedule_pins(iv, bv):
    """the part of a valuation that is the schedule (not the parking positions, not the auxiliary variables)"""
    unsched = {k[:-len('_scheduled')] for k, v in bv.items() if k.endswith('_scheduled') and not v}
    pins = {}
    for k, v in bv.items():
        if '_baux_' not in k and not k.startswith('applied') and '_applied' not in k:
            pins[k] = v
    for k, v in iv.items():
        if '_aux_' in k or k == 'horizon' or k.startswith('Indicator_') or '_level' in k or '_sc_time_' in k:
            continue
        m = re.match(r'(T\d+)_(start|end|duration)$', k)
        if m and m.group(1) in unsched:
            continue
        if '_busy_' in k and v < 0:
            continue
        mb = re.match(r'.*_busy_(T\d+)_(start|end)$', k)
        if mb and mb.group(1) in unsched:
            continue
        pins[k] = v
    return pins


def horizon_of(prog):
    for op in prog:
        if head(op) == 'ONewProblem':
            h = op[1]
            return 20 if h is None else h[1][1]
    return 20


def minimal_groups(z3, groups, pin_exprs, timeout_ms=8000):
    """groups: {tag: [exprs]} -- a minimal set of tags whose assertions are unsatisfiable together with the pins"""
    tags = list(groups)

    def unsat_with(sel):
        s = z3.Solver()
        s.set('timeout', timeout_ms)
        for t in sel:
            for e in groups[t]:
                s.add(e)
        for e in pin_exprs:
            s.add(e)
        return s.check() == z3.unsat
    if not unsat_with(tags):
        return None
    keep = list(tags)
    for t in tags:
        trial = [x for x in keep if x != t]
        if unsat_with(trial):
            keep = trial
    return keep


def probe(z3, compare, prog, A, ma, sp, seed, tries=3, timeout_ms=8000):
    """-> list of candidates {'valuation', 'pins', 'tags'}"""
    rng = random.Random(seed)
    out = []
    ssp = z3.Solver()
    ssp.set('timeout', timeout_ms)
    for _, e in sp:
        ssp.add(e)
    if ssp.check() != z3.sat:
        return out
    H = horizon_of(prog)
    tasks = sorted({op[1][1] for op in prog if head(op) == 'ONewTask'})
    optional = sorted({op[1][1] for op in prog if head(op) == 'ONewTask' and op[3] is True})
    groups = {}
    for t, e in ma:
        groups.setdefault(t, []).append(e)
    seen = set()
    has_periodic = any(head(op) == 'ONewConstraint' and head(op[3]) == 'CPeriodicUnavailable' for op in prog)
    for k in range(tries):
        ssp.push()
        if k > 0 and tasks:
            if k % 2 == 1:
                # decide the optional tasks at random (leaving one unscheduled is where encodings go wrong)
                for t in optional:
                    ssp.add(z3.Bool('T%d_scheduled' % t) == (rng.random() < 0.4))
            if k != 1:
                for t in rng.sample(tasks, min(len(tasks), rng.choice([1, 2]))):
                    ssp.add(z3.Int('T%d_start' % t) == rng.randint(0, max(1, H - 1)))
        r = ssp.check()
        if r != z3.sat:
            ssp.pop()
            continue
        val = compare.model_to_dict(ssp.model())
        ssp.pop()
        iv = {a: b for a, b in val.items() if isinstance(b, int) and not isinstance(b, bool)}
        bv = {a: b for a, b in val.items() if isinstance(b, bool)}
        pins = schedule_pins(iv, bv)
        # a busy interval that ends before it starts (delay_in + early_out beyond the duration: finding F26) is not a schedule
        if any(k.endswith('_start') and '_busy_' in k and pins.get(k[:-6] + '_end', v) < v for k, v in pins.items()):
            continue
        # a zero-length busy interval at a non-negative instant (zero-duration task, dynamic worker present for an instant): the
        # periodic encoding treats the instant as busy, Spec.per_free only speaks of intervals of positive length -- not a
        # schedule on which the two can be compared
        if has_periodic and any(k.endswith('_start') and '_busy_' in k and v >= 0 and pins.get(k[:-6] + '_end') == v for k, v in pins.items()):
            continue
        sig = tuple(sorted(pins.items()))
        if sig in seen:
            continue
        seen.add(sig)
        pexprs = [(z3.Bool(a) == b) if isinstance(b, bool) else (z3.Int(a) == b) for a, b in pins.items()]
        s = z3.Solver()
        s.set('timeout', timeout_ms)
        for e in A:
            s.add(e)
        for e in pexprs:
            s.add(e)
        if s.check() != z3.unsat:
            continue
        tags = minimal_groups(z3, groups, pexprs, timeout_ms)
        out.append({'valuation': val, 'pins': pins, 'tags': tags})
    return out
