"""Directional, semantic comparison of implementation and model assertion sets (DESIGN 3.3)."""
import re
import z3

_TOK = re.compile(r'[()\s]+')


def parse_model(rep):
    """model report -> (asserts [(tag, expr)], spec [(key, expr)]) in the main z3 context"""
    decls = '\n'.join(rep['decls'])
    lines = [s for _, s in rep['asserts']] + [s for _, s in rep['spec']]
    if not lines:
        return [], []
    txt = decls + '\n' + '\n'.join('(assert %s)' % s for s in lines)
    vec = z3.parse_smt2_string(txt)
    assert len(vec) == len(lines), (len(vec), len(lines))
    na = len(rep['asserts'])
    asserts = [(rep['asserts'][i][0], vec[i]) for i in range(na)]
    spec = [(rep['spec'][i][0], vec[na + i]) for i in range(len(rep['spec']))]
    return asserts, spec


def _solver(timeout_ms):
    s = z3.Solver()
    s.set('timeout', timeout_ms)
    return s


def entails(hyps, goals, timeout_ms=10000):
    """for each goal (label, g): is And(hyps) => g valid?  -> list of (label, 'valid'|'invalid'|'unknown', model|None)"""
    s = _solver(timeout_ms)
    for h in hyps:
        s.add(h)
    res = []
    for label, g in goals:
        s.push()
        s.add(z3.Not(g))
        r = s.check()
        if r == z3.unsat:
            res.append((label, 'valid', None))
        elif r == z3.sat:
            res.append((label, 'invalid', s.model()))
        else:
            res.append((label, 'unknown', None))
        s.pop()
    return res


def syntactic_equal(impl, model):
    """cheap pre-check: same multiset of simplified formulas"""
    a = sorted(z3.simplify(x).sexpr() for x in impl)
    b = sorted(z3.simplify(x).sexpr() for x in model)
    return a == b


def model_to_dict(m):
    d = {}
    for decl in m.decls():
        if decl.arity() != 0:
            continue
        v = m[decl]
        if z3.is_int_value(v):
            d[decl.name()] = v.as_long()
        elif z3.is_true(v) or z3.is_false(v):
            d[decl.name()] = bool(z3.is_true(v))
    return d
