"""Engine for the encoder-family properties (C01-C06, C08-C10, C14, C18): theorem about the Coq model +
correspondence of the model with /repo on sampled programs + spec sweep on the real constraint system."""
import collections
import json
import os
import subprocess
import time

import common
import gen
import modelrun
import terms
import tie

# per property: generator profiles, decisive directions, tags consumed by the theorem, spec clause prefixes
CONFIG = {
    'C01': dict(profiles=['tasks', 'mixed', 'fol'], fwd_tags=['task', 'horizon', 'problem'], bwd=False, o1=False,
                spec=['C01/'], n=(160, 3000)),
    'C02': dict(profiles=['resources', 'resources', 'late', 'mixed'], fwd_tags=['task', 'overlap', 'work'], bwd=False, o1=False,
                spec=['C02/'], n=(180, 3000)),
    'C03': dict(profiles=['taskcons', 'taskcons', 'mixed'], fwd_tags=['cons'], bwd=False, o1=False,
                spec=['C03/'], n=(210, 4000)),
    'C04': dict(profiles=['rescons', 'rescons', 'late', 'mixed'], fwd_tags=['cons'], bwd=False, o1=False,
                spec=['C04/'], n=(240, 4000)),
    'C05': dict(profiles=['tasks', 'taskcons', 'resources', 'rescons', 'optional', 'fol', 'mixed', 'indicators', 'buffers'],
                fwd_tags=[], bwd=True, o1=False, spec=[], n=(270, 5000)),
    'C06': dict(profiles=['optional', 'optional', 'optional_ind', 'mixed'], fwd_tags=['task', 'cons', 'horizon', 'overlap', 'ind', 'buf'], bwd=True, o1=False,
                spec=['C06/', 'C01/', 'C02/', 'C08/', 'C09/'], n=(240, 4000), findings_from=['F13', 'F38'],
                exclude_kinds=['nb_tasks_late', 'nb_tasks_cumulative', 'flowtime_single_resource', 'idle']),
    'C10': dict(profiles=['fol', 'fol', 'mixed'], fwd_tags=['cons'], bwd=True, o1=False,
                spec=['C10/'], n=(210, 4000)),
    'C08': dict(profiles=['indicators', 'indicators', 'objectives', 'mixed'], fwd_tags=['ind', 'cons', 'obj'], bwd=True, o1=False,
                spec=['C08/'], n=(240, 4000)),
    'C09': dict(profiles=['buffers', 'buffers', 'indicators'], fwd_tags=['buf'], bwd=True, o1=False,
                spec=['C09/'], n=(210, 3000)),
    'C18': dict(profiles=['malformed', 'malformed', 'mixed', 'indicators'], fwd_tags=[], bwd=False, o1=True, spec=[], n=(400, 6000)),
}


def refused_problem_probe(_):
    """C18 ("any element created before a problem exists is rejected"): whatever arguments a SchedulingProblem is refused with, the
    refused object must not be left behind as the problem new elements attach to"""
    import datetime
    import itertools
    import processscheduler as ps
    import processscheduler.base as psbase
    t0 = datetime.datetime(2024, 1, 1, 8, 0, 0)
    t1 = datetime.datetime(2024, 1, 2, 8, 0, 0)
    horizons = [None, 0, -1, 5, 'x']
    deltas = [None, datetime.timedelta(0), datetime.timedelta(minutes=-5), datetime.timedelta(minutes=1)]
    times = [(None, None), (t0, t0), (t1, t0), (t0, t1), (None, t0)]
    out = {'tried': 0, 'refused': 0, 'problems': []}
    for earlier in (False, True):
        for hz, dt, (st, et) in itertools.product(horizons, deltas, times):
            psbase.active_problem = None
            p0 = ps.SchedulingProblem(name='Earlier', horizon=10) if earlier else None
            kw = {}
            if hz is not None:
                kw['horizon'] = hz
            if dt is not None:
                kw['delta_time'] = dt
            if st is not None:
                kw['start_time'] = st
            if et is not None:
                kw['end_time'] = et
            out['tried'] += 1
            try:
                ps.SchedulingProblem(name='Probe', **kw)
                continue
            except Exception:
                out['refused'] += 1
            what = 'SchedulingProblem(%s) was refused' % ', '.join('%s=%r' % kv for kv in kw.items())
            if psbase.active_problem is not None and psbase.active_problem is not p0:
                out['problems'].append(what + ' but is the problem new elements attach to')
                continue
            made = []
            for label, mk in (('FixedDurationTask', lambda: ps.FixedDurationTask(name='ProbeTask', duration=1)),
                              ('Worker', lambda: ps.Worker(name='ProbeWorker')),
                              ('NonConcurrentBuffer', lambda: ps.NonConcurrentBuffer(name='ProbeBuffer', initial_level=0))):
                try:
                    obj = mk()
                    made.append((label, obj))
                except Exception:
                    pass
            if p0 is None and made:
                out['problems'].append(what + '; no problem exists, yet these elements were accepted: ' + ', '.join(l for l, _ in made))
            if p0 is not None:
                lost = [l for l, o in made if o.name not in p0.tasks and o.name not in p0.workers and o.name not in [b.name for b in p0.buffers]]
                if lost:
                    out['problems'].append(what + '; elements created afterwards are not in the earlier problem: ' + ', '.join(lost))
    psbase.active_problem = None
    return out


def load_corpus(prop):
    out = []
    d = os.path.join(common.VERIF, 'corpus', prop)
    if os.path.isdir(d):
        for fn in sorted(os.listdir(d)):
            if fn.endswith('.json'):
                j = json.load(open(os.path.join(d, fn)))
                out.append(terms.from_jsonable(j['program']))
    return out


def prog_signature(p):
    return terms.to_coq(p)


def pretty(p):
    return [terms.to_coq(o) for o in p]


def confirm_in_coq(ctx, cands):
    """cands: list of (prog, key, witness dict).  Evaluate each clause on its valuation with vm_compute.
    -> list of (clause_holds, model_admits) or None"""
    if not cands:
        return []
    vf = os.path.join(ctx.work, 'confirm.v')
    with open(vf, 'w') as f:
        f.write('From Coq Require Import ZArith List Bool String.\n'
                'From PS.model Require Import Smt Enc Ind Prog Driver.\nFrom PS.spec Require Import Spec.\n'
                'Import ListNotations.\nOpen Scope string_scope.\n')
        for i, (prog, key, wit) in enumerate(cands):
            iv = '; '.join('("%s", (%d)%%Z)' % (k, v) for k, v in sorted(wit.items()) if isinstance(v, int) and not isinstance(v, bool))
            bv = '; '.join('("%s", %s)' % (k, 'true' if v else 'false') for k, v in sorted(wit.items()) if isinstance(v, bool))
            f.write('Definition cp%d : list op := %s.\n' % (i, terms.to_coq(prog)))
            f.write('Eval vm_compute in (confirm_clause spec_all cp%d "%s" (env_of [%s] [%s])).\n' % (i, key, iv, bv))
    r = subprocess.run(['coqc'] + common.COQFLAGS + [vf], cwd=common.COQ, capture_output=True, text=True, timeout=1200)
    if r.returncode != 0:
        return [None] * len(cands)
    res = []
    for chunk in r.stdout.split(': confirm')[:-1]:
        txt = chunk[chunk.rindex('='):]
        if 'CfResult' in txt:
            toks = txt.replace('CfResult', '').replace('=', '').split()
            res.append((toks[0] == 'true', toks[1] == 'true'))
        else:
            res.append(None)
    while len(res) < len(cands):
        res.append(None)
    return res


def lost_schedule_search(ctx, prog, witness):
    """C05: the tie gave a valuation the model admits and the implementation rejects.  Is it a valid schedule
    (every Spec clause holds, evaluated in Coq) that the real constraint system rejects when pinned?"""
    import impl
    import z3
    import re
    iv = {k: v for k, v in witness.items() if isinstance(v, int) and not isinstance(v, bool)}
    bv = {k: v for k, v in witness.items() if isinstance(v, bool)}
    vf = os.path.join(ctx.work, 'valid.v')
    with open(vf, 'w') as f:
        f.write('From Coq Require Import ZArith List Bool String.\nFrom PS.model Require Import Smt Enc Ind Prog Solution Driver.\n'
                'From PS.spec Require Import Spec.\nImport ListNotations.\nOpen Scope string_scope.\n')
        f.write('Definition cp : list op := %s.\n' % terms.to_coq(prog))
        f.write('Eval vm_compute in (valid_schedule spec_all cp (env_of [%s] [%s])).\n' % (
            '; '.join('("%s", (%d)%%Z)' % (k, v) for k, v in sorted(iv.items())),
            '; '.join('("%s", %s)' % (k, 'true' if v else 'false') for k, v in sorted(bv.items()))))
    r = subprocess.run(['coqc'] + common.COQFLAGS + [vf], cwd=common.COQ, capture_output=True, text=True, timeout=600)
    if r.returncode != 0 or 'Some' not in r.stdout:
        return None
    txt = ' '.join(r.stdout.split())
    failing = re.findall(r'"([^"]+)"', txt)
    model_admits = txt.rstrip().split(',')[-1].strip().startswith('true') or ', true)' in txt
    # pin the schedule (not the parking positions, not the auxiliary variables) on the real constraint system
    im = impl.Impl()
    if im.run(prog)[0] != 'ok':
        return None
    im.initialize()
    A = im.assertions()
    s = z3.Solver()
    s.set('timeout', 20000)
    for a in A:
        s.add(a)
    unsched = {k[:-len('_scheduled')] for k, v in bv.items() if k.endswith('_scheduled') and not v}
    pins = {}
    for k, v in bv.items():
        if '_baux_' not in k:
            pins[k] = v
    for k, v in iv.items():
        if '_aux_' in k or k == 'horizon' or k.startswith('Indicator_') or '_level' in k or '_sc_time_' in k:
            continue
        m = re.match(r'(T\d+)_(start|end|duration)$', k)
        if m and m.group(1) in unsched:
            continue
        if '_busy_' in k and v < 0:
            continue
        mb = re.match(r'.*_busy_(T\d+)_(start|end)$', k)
        if mb and mb.group(1) in unsched:
            continue
        pins[k] = v
    for k, v in pins.items():
        s.add((z3.Bool(k) == v) if isinstance(v, bool) else (z3.Int(k) == v))
    res = s.check()
    return {'spec_clauses_failing': failing, 'model_admits': model_admits, 'impl_with_pins': str(res), 'pins': pins}


def lost_key(prog, tags):
    """name a lost schedule by the kinds of the elements that reject it (constraints first)"""
    kinds = set()
    cons = {terms.nval(o[1]): o[3][0] for o in prog if o[0] == 'ONewConstraint'}
    for t in tags or []:
        fam, _, eid = t.partition(':')
        if fam == 'cons' and eid.isdigit() and int(eid) in cons:
            kinds.add(cons[int(eid)])
        else:
            kinds.add(fam)
    ck = sorted(k for k in kinds if k.startswith('C'))
    return 'lost:' + '+'.join(ck if ck else sorted(kinds))


def clause_kind(key):
    return key.split('/')[-1]


def run(ctx, replay=None):
    cfg = CONFIG[ctx.prop]
    quick = ctx.tier == 'quick'
    evidence_cov = {}
    # ---- 1. build + proof obligations + hygiene ----
    ok, blog = common.build(ctx)
    if not ok:
        path = common.write_replay(ctx, 'build', {'kind': 'build-failed', 'what': 'the Coq development no longer builds', 'log': blog})
        common.violation(ctx, path, found_input=False)
        common.write_evidence(ctx, 'proof', {'obligations': 1, 'discharged': 0, 'checker_cmd': './build.sh',
                                             'trusted_base': common.TRUSTED_BASE, 'explanation': 'build failed'}, [])
        return
    po = common.proof_obligations(ctx.prop)
    chk_res = common.coqchk(ctx.prop) if ctx.tier == 'thorough' else None
    if chk_res is not None and not chk_res['ok']:
        path = common.write_replay(ctx, 'coqchk', {'kind': 'coqchk-failed', 'summary': chk_res['summary']})
        common.violation(ctx, path, found_input=False)
    bad = common.hygiene()
    n_obl = len(po['theorems'])
    closed = [t for t in po['theorems'] if po['assumptions'].get(t) == 'Closed under the global context']
    axioms = {t: a for t, a in po['assumptions'].items() if a != 'Closed under the global context'}
    discharged = n_obl if (po['ok'] and po['all_printed']) else 0
    if not po['ok'] or not po['all_printed'] or bad:
        path = common.write_replay(ctx, 'proof', {'kind': 'proof-obligation', 'file': po['file'], 'log': po['log'],
                                                  'hygiene': bad, 'theorems': po['theorems']})
        common.violation(ctx, path, found_input=False)

    # ---- 2. programs: replay / corpus first, then fresh ones ----
    if replay is not None:
        progs = [terms.from_jsonable(replay['program'])]
        per_profile = {'replay': 1}
    else:
        progs = load_corpus(ctx.prop)
        per_profile = {'corpus': len(progs)}
        n_total = cfg['n'][0 if quick else 1]
        if quick and getattr(ctx, 'src_changes', None):
            n_total *= 2          # the source differs from the recorded tree: draw more programs
        profs = cfg['profiles']
        for pi, pf in enumerate(profs):
            k = n_total // len(profs)
            progs += gen.generate(ctx.seed * 1000 + pi, k, pf, 'quick' if quick else 'thorough')
            per_profile[pf] = per_profile.get(pf, 0) + k
    # C10: every fourth program also declares a makespan objective and is set up with the built-in optimiser -- the assertion
    # set handed to z3 must be the same (C15_options_do_not_change_assertions), optional constraints included
    kw_by_idx = {}
    if ctx.prop == 'C10' and replay is None:
        for i in range(0, len(progs), 4):
            if progs[i] and progs[i][0][0] == 'ONewProblem' and not any(o[0] == 'ONewObjective' for o in progs[i]):
                progs[i] = list(progs[i]) + [('ONewObjective', ('OMakespan',), terms.N(900))]
                kw_by_idx[i] = {'optimizer': 'optimize'}
    # C09 / C02: every third program without objectives is built in two stages, with a solver initialised (and dropped) in
    # between: the constraint system of the finished problem must not depend on that
    mid_by_idx = {}
    if ctx.prop in ('C09', 'C02') and replay is None:
        for i in range(1, len(progs), 3):
            p_ = progs[i]
            if len(p_) >= 4 and p_[0][0] == 'ONewProblem' and not any(o[0] == 'ONewObjective' for o in p_):
                mid_by_idx[i] = max(1, len(p_) - 2 - (i % 3))
    # ---- 3. model: bulk route, plus kernel route on a slice ----
    t1 = time.time()
    shards = []
    SH = 400
    reports = []
    for si in range(0, len(progs), SH):
        reports += modelrun.run_extracted(progs[si:si + SH], ctx.work, shard=si // SH)
    nslice = max(30, len(progs) // 10) if quick else max(30, len(progs) // 20)
    nslice = min(nslice, len(progs), 60 if quick else 150)
    step = max(1, len(progs) // nslice)
    slice_idx = list(range(0, len(progs), step))[:nslice]
    kernel_mismatch = []
    if replay is None or True:
        kreps = kernel_parallel([progs[i] for i in slice_idx], ctx.work)
        for i, kr in zip(slice_idx, kreps):
            if kr != reports[i]:
                kernel_mismatch.append(i)
    t_model = time.time() - t1
    if kernel_mismatch:
        path = common.write_replay(ctx, 'extraction', {'kind': 'extraction-vs-kernel', 'programs': [pretty(progs[i]) for i in kernel_mismatch[:3]]})
        common.violation(ctx, path, found_input=False)
    # ---- 4. tie + sweep ----
    t2 = time.time()
    results = tie.run_tie(progs, reports, {'spec_prefixes': cfg['spec'], 'sweep': bool(cfg['spec']),
                                           'lost_probe': ctx.prop in ('C05', 'C06'), 'seed': ctx.seed, 'lost_tries': 4 if quick else 8,
                                           'solver_kw_by_idx': kw_by_idx, 'mid_init_by_idx': mid_by_idx})
    t_tie = time.time() - t2
    # ---- 5. decision ----
    stats = collections.Counter()
    spec_kinds = {}
    tie_breaks = []
    cands = []
    kinds = collections.Counter()
    errkinds = collections.Counter()
    sizes = collections.Counter()
    if ctx.prop == 'C02':
        # the structural hypothesis of C02_cumulative_capacity, evaluated by the model on every sampled program
        notok = [i for i, rp in enumerate(reports) if rp and rp.get('info', {}).get('cumul_ok') == 'false']
        stats['cumul_ok_true'] = sum(1 for rp in reports if rp and rp.get('info', {}).get('cumul_ok') == 'true')
        stats['cumul_ok_false'] = len(notok)
        if notok:
            tie_breaks.append((notok[0], 'hypothesis', {'what': 'cumul_ok is false on a reachable state: theorem C02_cumulative_capacity does not apply'}))
    for p in progs:
        sizes[min(len(p) // 5 * 5, 30)] += 1
        for o in p:
            kinds[o[3][0] if o[0] == 'ONewConstraint' else o[0]] += 1
    for r in results:
        i = r['idx']
        stats['o1_' + str(r['o1'])] += 1
        if r.get('impl_err'):
            errkinds[r['impl_err'].split(':')[0]] += 1
        if r['error']:
            stats['harness_error'] += 1
            tie_breaks.append((i, 'harness-error', r['error'][-600:]))
            continue
        if r['o1'] == 'mismatch':
            if cfg['o1']:
                tie_breaks.append((i, 'O1', {'model': r['model_run'], 'impl': r.get('impl_run'), 'impl_error': r.get('impl_err')}))
            continue
        if r['o1'] != 'agree' or r['model_run'][0] != 'ok':
            continue
        stats['compared'] += 1
        stats['impl_feasible'] += 1 if r.get('impl_feasible') else 0
        stats['syntactic'] += 1 if r['syntactic'] else 0
        stats['unknown'] += r['unknown']
        stats['spec_checked'] += r.get('n_spec', 0)
        for kk_, nn_ in r.get('spec_kinds', {}).items():
            spec_kinds[kk_] = spec_kinds.get(kk_, 0) + nn_
        fb = [b for b in r['fwd_bad'] if b['tag'].split(':')[0] in cfg['fwd_tags']]
        if fb:
            tie_breaks.append((i, 'impl=>model', fb[0]))
        stats['fwd_other'] += len(r['fwd_bad']) - len(fb)
        if r['bwd_bad']:
            if cfg['bwd']:
                tie_breaks.append((i, 'model=>impl', r['bwd_bad'][0]))
            else:
                stats['bwd_other'] += 1
        for sb in r['spec_bad']:
            if clause_kind(sb['key']) in cfg.get('exclude_kinds', ()):
                continue
            cands.append((progs[i], sb['key'], sb['witness'], i))
    # spec-sweep candidates: confirm in Coq, classify
    findings = common.load_findings(ctx.prop)
    if cfg.get('findings_from'):
        findings += [f for f in common.load_findings(None) if f['id'] in cfg['findings_from']]
    open_kinds = {f['clause_kind']: f for f in findings if f['status'] == 'open'}
    # candidates of a kind that is not a listed finding first (a flood of known ones must not hide a new one), a few of each kind
    per_kind = collections.Counter()
    picked, rest = [], []
    for c in cands:
        ck_ = clause_kind(c[1])
        per_kind[ck_] += 1
        (picked if per_kind[ck_] <= (6 if ck_ not in open_kinds else 3) else rest).append(c)
    picked.sort(key=lambda c: clause_kind(c[1]) in open_kinds)
    cands = picked + rest
    confirmed = confirm_in_coq(ctx, [(p, k, w) for p, k, w, _ in cands[:40]])
    new_viol = 0
    known_hits = collections.Counter()
    for (p, key, wit, i), cf in zip(cands[:40], confirmed):
        if cf is None or cf[0]:
            stats['candidates_not_confirmed'] += 1
            continue
        ck = clause_kind(key)
        if ck in open_kinds:
            known_hits[ck] += 1
            continue
        if new_viol < 3:
            path = common.write_replay(ctx, 'spec', {
                'kind': 'spec-violation', 'property': ctx.prop, 'clause': key, 'program': terms.dump(p),
                'program_pretty': pretty(p), 'schedule': wit, 'model_also_admits': cf[1],
                'what': 'the constraint system built by /repo admits this valuation, and the Spec clause evaluates to false on it (confirmed by vm_compute)'})
            common.violation(ctx, path)
        new_viol += 1
    # a broken correspondence: search the implementation for a concrete failing input on reduced programs
    if tie_breaks and new_viol == 0 and cfg['spec']:
        red = []
        for (i, direction, info) in tie_breaks[:12]:
            if direction == 'impl=>model':
                red.append(reduce_program(progs[i], info.get('tag', '')))
        red = [p for k, p in enumerate(red) if p is not None and p not in red[:k]]
        if red:
            rreports = modelrun.run_extracted(red, ctx.work, shard=700)
            rres = tie.run_tie(red, rreports, {'spec_prefixes': cfg['spec'], 'sweep': True}, procs=min(8, len(red)))
            rc = []
            for r in rres:
                for sb in r.get('spec_bad', []):
                    rc.append((red[r['idx']], sb['key'], sb['witness']))
            conf = confirm_in_coq(ctx, rc[:20])
            for (p, key, wit), cf in zip(rc[:20], conf):
                if cf is None or cf[0] or clause_kind(key) in open_kinds:
                    continue
                if new_viol < 3:
                    path = common.write_replay(ctx, 'spec', {
                        'kind': 'spec-violation', 'property': ctx.prop, 'clause': key, 'program': terms.dump(p),
                        'program_pretty': pretty(p), 'schedule': wit, 'model_also_admits': cf[1], 'found_by': 'reduced program after a correspondence break',
                        'what': 'the constraint system built by /repo admits this valuation, and the Spec clause evaluates to false on it (confirmed by vm_compute)'})
                    common.violation(ctx, path)
                new_viol += 1
            stats['reduced_programs_searched'] = len(red)
    # C05: a valuation the model admits and the implementation rejects -- is it a valid schedule that is lost?
    if ctx.prop in ('C05', 'C06', 'C10') and tie_breaks and new_viol == 0:
        for (i, direction, info) in [b for b in tie_breaks if b[1] == 'model=>impl'][:15]:
            ls = lost_schedule_search(ctx, progs[i], info.get('witness', {}))
            stats['lost_schedule_searches'] += 1
            if ls and not ls['spec_clauses_failing'] and ls['impl_with_pins'] == 'unsat':
                path = common.write_replay(ctx, 'lost', {
                    'kind': 'valid-schedule-lost', 'property': ctx.prop, 'program': terms.dump(progs[i]), 'program_pretty': pretty(progs[i]),
                    'schedule': ls['pins'], 'implementation_assertion_rejecting_it': info.get('impl_assert'),
                    'what': 'every Spec clause of the problem holds on this schedule (evaluated by vm_compute), the model admits it, and the constraint '
                            'system built by /repo is unsatisfiable once the schedule is pinned (start / end / duration of acting tasks, flags, selections)'})
                common.violation(ctx, path)
                new_viol += 1
                break
    # C05: schedules that satisfy every Spec clause, pinned on the constraint system of /repo (lostprobe.py)
    if ctx.prop in ('C05', 'C06'):
        lost_keys = collections.Counter()
        n_conf = 0
        for r in results:
            stats['lost_probe_programs'] += r.get('lost_probed', 0)
            for cand in r.get('lost', []):
                stats['lost_probe_candidates'] += 1
                key = lost_key(progs[r['idx']], cand.get('tags'))
                if n_conf >= 12 and (key in open_kinds or lost_keys[key] >= 2):
                    lost_keys[key] += 1
                    continue
                ls = lost_schedule_search(ctx, progs[r['idx']], cand['valuation'])
                n_conf += 1
                if not ls or ls['spec_clauses_failing'] or ls['impl_with_pins'] != 'unsat':
                    stats['lost_probe_not_confirmed'] += 1
                    continue
                lost_keys[key] += 1
                if key in open_kinds:
                    known_hits[key] += 1
                    continue
                if new_viol < int(os.environ.get('VERIF_MAX_REPLAYS', '3')):
                    path = common.write_replay(ctx, 'lost', {
                        'kind': 'valid-schedule-lost', 'property': ctx.prop, 'key': key, 'program': terms.dump(progs[r['idx']]),
                        'program_pretty': pretty(progs[r['idx']]), 'schedule': ls['pins'], 'rejected_by': cand.get('tags'),
                        'what': 'every Spec clause of the problem holds on this schedule (evaluated by vm_compute), and the constraint system built '
                                'by /repo is unsatisfiable once the schedule is pinned (start / end / duration of acting tasks, flags, selections); '
                                'rejected_by is a minimal set of model elements that reject it'})
                    common.violation(ctx, path)
                new_viol += 1
        evidence_cov['lost_schedule_keys'] = dict(lost_keys)
    # tie breaks not explained by a concrete violation
    if tie_breaks and new_viol == 0:
        i, direction, info = tie_breaks[0]
        path = common.write_replay(ctx, 'tie', {
            'kind': 'correspondence-broken', 'property': ctx.prop, 'direction': direction, 'detail': info,
            'program': terms.dump(progs[i]), 'program_pretty': pretty(progs[i]),
            'count': len(tie_breaks),
            'what': 'model and implementation differ on this program in the direction the theorem consumes'})
        # for O1 (C18) the differing accept/reject decision *is* the failing input
        common.violation(ctx, path, found_input=(direction == 'O1'))
    elif tie_breaks:
        stats['tie_breaks_with_violation'] = len(tie_breaks)
    # known findings: replay their witnesses on the current code
    for f in findings:
        if f['status'] != 'open':
            continue
        if replay_finding(ctx, f):
            common.known_finding(ctx, f['text'])
    # ---- 6. evidence ----
    nontrivial = len({prog_signature(progs[r['idx']]) for r in results
                      if r['o1'] == 'agree' and (r['model_run'][0] == 'err' or r['n_model'] >= 3)})
    samples = [pretty(progs[i]) for i in range(0, len(progs), max(1, len(progs) // 3))][:3]
    cov = {
        'obligations': n_obl, 'discharged': discharged,
        'checker_cmd': 'coqc %s %s  (after ./build.sh: coq_makefile + make, full .vo)' % (' '.join(common.COQFLAGS), po['file']),
        'trusted_base': common.TRUSTED_BASE + ['Print Assumptions: ' + '; '.join('%s: %s' % (t, po['assumptions'].get(t, 'NOT PRINTED')) for t in po['theorems'])],
        'coqchk': ({'axioms': chk_res['axioms'], 'ok': chk_res['ok']} if chk_res else 'thorough tier only'), 'theorems': po['theorems'], 'axioms': axioms, 'hygiene_hits': bad,
        'evaluations': len(progs), 'distinct_nontrivial': nontrivial,
        'rule': 'programs drawn by harness/gen.py from profiles %s with seed %d (plus corpus); non-trivial = accepted with >= 3 model assertions, or rejected; distinct by full program text' % (cfg['profiles'], ctx.seed),
        'samples': samples,
        'traces_validated_against_impl': stats['compared'] + stats['o1_agree'] - stats['compared'],
        'tie': {k: v for k, v in stats.items()},
        'tie_direction_decisive': {'impl=>model on tags': cfg['fwd_tags'], 'model=>impl': cfg['bwd'], 'accept/reject (O1)': cfg['o1']},
        'kernel_route_crosscheck': {'programs': len(slice_idx), 'mismatches': len(kernel_mismatch)},
        'spec_clauses_swept': stats['spec_checked'], 'spec_clauses_swept_by_kind': dict(sorted(spec_kinds.items())), 'spec_candidates': len(cands), 'known_finding_hits': dict(known_hits),
        'generator_distribution': {'per_profile': per_profile, 'ops': dict(kinds.most_common()), 'program_length_buckets': dict(sizes),
                                   'impl_error_kinds': dict(errkinds)},
        'timing_s': {'model': round(t_model, 1), 'tie': round(t_tie, 1)},
    }
    # ---- the reported values (C08: indicators and the horizon they refer to; C09: level sequences and change times): what
    # build_solution / clean_buffer_levels hand to the user, real library against Solution.v, on a slice of the programs ----
    if ctx.prop in ('C08', 'C09'):
        import engine_sol
        want = (lambda l: l.startswith(('IND ', 'HORIZON '))) if ctx.prop == 'C08' else (lambda l: l.startswith('BUF '))
        has = 'ONewIndicator' if ctx.prop == 'C08' else 'ONewBuffer'
        pool = [p for p in progs if any(o[0] == has for o in p)]
        sl = pool[:(40 if quick else 400)]
        try:
            sstats, sbreaks = engine_sol.solution_slice(ctx, sl, want)
        except Exception as ex:
            sstats, sbreaks = {'error': str(ex)[:300]}, [(0, 0, (['solution slice failed: ' + str(ex)[:300]], []))]
        for (i, k, d) in sbreaks[:3]:
            path = common.write_replay(ctx, 'report', {
                'kind': 'correspondence-broken', 'observable': 'O5 reported values (build_solution / clean_buffer_levels)', 'property': ctx.prop,
                'program': terms.dump(sl[i]), 'program_pretty': pretty(sl[i]), 'solution_index': k,
                'only_in_impl__only_in_model': d,
                'what_it_means': 'the values reported to the user differ from the values of the schedule the solver found (as Solution.v builds them)'})
            common.violation(ctx, path)
        cov['reported_values_slice'] = {'programs': len(sl), **sstats, 'breaks': len(sbreaks)}
        if ctx.prop == 'C09':
            # a solver object created early, with an SMT logic that has no arrays: the levels it returns still obey the buffer
            ev = common.pmap(engine_sol.early_solver_validity, [(i, p, ctx.seed) for i, p in enumerate(sl)])
            st2 = collections.Counter(str(e.get('status')) for e in ev)
            for e in [e for e in ev if e.get('status') == 'INVALID'][:2]:
                path = common.write_replay(ctx, 'early', {
                    'kind': 'violation', 'property': 'C09', 'what': 'the schedule returned by a solver created before the buffers were declared '
                    '(logics=%s) violates the buffer assertions' % e.get('logics'), 'detail': e.get('detail'),
                    'program': terms.dump(sl[e['idx']]), 'program_pretty': pretty(sl[e['idx']])})
                common.violation(ctx, path)
            cov['early_solver_with_logic'] = dict(st2)
    if ctx.prop == 'C18' and replay is None:
        pr = common.pmap(refused_problem_probe, [0])[0]
        if pr.get('crashed'):
            pr = {'tried': 0, 'refused': 0, 'problems': ['the probe crashed: ' + str(pr.get('error'))[:300]]}
        for msg in pr['problems'][:2]:
            path = common.write_replay(ctx, 'refused', {'kind': 'violation', 'property': 'C18', 'what': msg,
                                                        'what_it_means': 'an element is accepted although no (successfully created) problem exists'})
            common.violation(ctx, path)
        cov['refused_problem_probe'] = {'constructor_calls': pr['tried'], 'refused': pr['refused'], 'problems': len(pr['problems'])}
    # ---- translator tie: the helper functions of util.py this property rests on, regenerated from /repo's source ----
    import srctie
    if ctx.prop in srctie.BY_PROP and replay is None:
        cov['source_translation'] = srctie.run(ctx)
    cov.update(evidence_cov)
    common.write_evidence(ctx, 'proof', cov, [
        'the theorem is about the Coq model; the model is tied to /repo only on the sampled programs (per program the comparison is exact, by z3)',
        'z3 unknown answers on refinement queries: %d (never counted as agreement)' % stats['unknown']])


def _cons_deps(e):
    out = set()

    def go(x):
        if isinstance(x, tuple):
            if x and x[0] == 'OpC':
                out.add(terms.nval(x[1]))
            for y in x[1:]:
                go(y)
        elif isinstance(x, list):
            for y in x:
                go(y)
    go(e)
    if e[0] == 'CForceApplyN':
        for c in e[1]:
            out.add(terms.nval(c))
    return out


def reduce_program(prog, tag):
    """keep every non-constraint op, and only the constraint named by the tag (with the constraints it refers to)"""
    kind, _, eid = tag.partition(':')
    keep = set()
    if kind == 'cons' and eid.isdigit():
        deps = {terms.nval(o[1]): _cons_deps(o[3]) for o in prog if o[0] == 'ONewConstraint'}
        todo = [int(eid)]
        while todo:
            c = todo.pop()
            if c in keep:
                continue
            keep.add(c)
            todo += list(deps.get(c, ()))
    elif kind not in ('task', 'overlap', 'work', 'horizon', 'problem'):
        return None
    return [o for o in prog if o[0] != 'ONewConstraint' or terms.nval(o[1]) in keep]


def kernel_parallel(progs, work):
    """kernel route on several coqc processes"""
    import concurrent.futures as cf
    n = len(progs)
    if n == 0:
        return []
    k = min(8, n)
    chunks = [list(range(i, n, k)) for i in range(k)]
    out = [None] * n

    def job(ci):
        idxs = chunks[ci]
        reps = modelrun.run_kernel([progs[i] for i in idxs], work, name='kcases%d' % ci)
        return ci, reps
    with cf.ThreadPoolExecutor(max_workers=k) as ex:
        for ci, reps in ex.map(job, range(k)):
            for i, r in zip(chunks[ci], reps):
                out[i] = r
    return out


def replay_finding(ctx, f):
    """re-run the witness of a known finding against the current code; True iff it still reproduces"""
    import compare
    import impl
    import z3
    prog = terms.from_jsonable(f['witness']['program'])
    rep = modelrun.run_extracted([prog], ctx.work, shard=900 + abs(hash(f['id'])) % 90)[0]
    im = impl.Impl()
    r = im.run(prog)
    if f.get('observable') == 'O1':
        return (r[0] == 'ok') == f['witness']['impl_accepts']
    if r[0] != 'ok':
        return False
    im.initialize()
    A = im.assertions()
    ma, sp = compare.parse_model(rep)
    goals = [(k, e) for k, e in sp if k == f['witness']['clause']]
    if not goals:
        return False
    s = z3.Solver()
    s.set('timeout', 10000)
    for a in A:
        s.add(a)
    for k, v in f['witness'].get('pin', {}).items():
        s.add((z3.Bool(k) == v) if isinstance(v, bool) else (z3.Int(k) == v))
    s.add(z3.Not(goals[0][1]))
    return s.check() == z3.sat
