"""./check <property> --tier quick|thorough [--replay FILE]"""
import argparse
import json
import os
import sys

import common

ENGINES = {}


def engine_for(prop):
    import engine_enc
    if prop in engine_enc.CONFIG:
        return engine_enc
    import engine_solver
    if prop in engine_solver.CONFIG:
        return engine_solver
    import engine_sol
    if prop in engine_sol.CONFIG:
        return engine_sol
    import engine_cfg
    if prop in engine_cfg.CONFIG:
        return engine_cfg
    import engine_c14
    if prop in engine_c14.CONFIG:
        return engine_c14
    raise SystemExit('no check registered for ' + prop)


def main():
    ap = argparse.ArgumentParser()
    ap.add_argument('prop')
    ap.add_argument('--tier', default=os.environ.get('VERIF_TIER', 'quick'))
    ap.add_argument('--replay', default=None)
    a = ap.parse_args()
    seed = int(os.environ.get('VERIF_SEED', '1'))
    tier = a.tier if a.tier in ('quick', 'thorough') else 'quick'
    ctx = common.Ctx(a.prop, tier, seed)
    # source watch: code that differs from the recorded tree redirects the sampling (never an alarm by itself)
    try:
        import srcwatch
        import gen
        ctx.src_changes = srcwatch.changed()
        gen.FOCUS = srcwatch.focus(ctx.src_changes)
    except Exception as e:
        ctx.src_changes = ['<source watch failed: %r>' % (e,)]
    eng = engine_for(a.prop)
    replay = json.load(open(a.replay)) if a.replay else None
    try:
        eng.run(ctx, replay)
    except Exception as e:
        import traceback
        path = common.write_replay(ctx, 'crash', {'kind': 'check-crashed', 'trace': traceback.format_exc()[-3000:]})
        common.violation(ctx, path, found_input=False)
        common.write_evidence(ctx, 'proof', {'obligations': 1, 'discharged': 0, 'checker_cmd': './check',
                                             'trusted_base': common.TRUSTED_BASE, 'explanation': 'check crashed: %r' % (e,)}, [])
    common.finish(ctx)


if __name__ == '__main__':
    main()
