"""Evaluate the Coq model on programs: bulk route (extracted OCaml) and kernel route (coqc vm_compute)."""
import os
import subprocess
import shutil

from terms import to_ocaml, to_coq

VERIF = os.path.dirname(os.path.dirname(os.path.abspath(__file__)))
GEN = os.path.join(VERIF, 'coq', 'extract', 'gen')
COQ = os.path.join(VERIF, 'coq')
COQFLAGS = ['-Q', 'model', 'PS.model', '-Q', 'spec', 'PS.spec', '-Q', 'proofs', 'PS.proofs',
            '-Q', 'props', 'PS.props', '-Q', 'extract', 'PS.extract']


def parse_reports(text):
    """-> list of dict(run=('ok',)|('err',i)|('unsup',i), decls=[...], asserts=[(tag, sexpr)], spec=[(key, sexpr)], extra=[lines])"""
    out = []
    cur = None
    for line in text.split('\n'):
        if line.startswith('PROG '):
            cur = {'run': None, 'decls': [], 'asserts': [], 'spec': [], 'extra': []}
        elif line == 'END':
            out.append(cur)
            cur = None
        elif cur is None:
            continue
        elif line.startswith('RUN '):
            parts = line.split()
            cur['run'] = (parts[1],) if parts[1] == 'ok' else (parts[1], int(parts[2]))
        elif line.startswith('(declare-'):
            cur['decls'].append(line)
        elif line.startswith('A '):
            _, tag, sexpr = line.split(' ', 2)
            cur['asserts'].append((tag, sexpr))
        elif line.startswith('S '):
            _, key, sexpr = line.split(' ', 2)
            cur['spec'].append((key, sexpr))
        elif line.startswith('INFO '):
            _, k, v = line.split(' ', 2)
            cur.setdefault('info', {})[k] = v
        elif line:
            cur['extra'].append(line)
    return out


def run_extracted(progs, workdir, shard=0):
    """progs: list of list of op terms."""
    d = os.path.join(workdir, 'ml%d' % shard)
    os.makedirs(d, exist_ok=True)
    with open(os.path.join(d, 'cases.ml'), 'w') as f:
        f.write('open Model\nopen Helpers\n')
        for i, p in enumerate(progs):
            f.write('let p%d = %s\n' % (i, to_ocaml(p)))
        f.write('let progs = [' + '; '.join('p%d' % i for i in range(len(progs))) + ']\n')
    shutil.copy(os.path.join(GEN, 'main.ml'), d)
    cmd = ['ocamlfind', 'ocamlopt', '-w', '-a', '-I', GEN, os.path.join(GEN, 'model.cmx'),
           os.path.join(GEN, 'helpers.cmx'), 'cases.ml', 'main.ml', '-o', 'run']
    # large literals overflow the compiler's default 8 MB stack
    r = subprocess.run(['bash', '-c', 'ulimit -s unlimited 2>/dev/null || ulimit -s 1000000; exec "$@"', 'sh'] + cmd,
                       cwd=d, capture_output=True, text=True, timeout=600)
    if r.returncode != 0:
        raise RuntimeError('ocaml build failed: ' + r.stderr[:2000])
    r = subprocess.run(['bash', '-c', 'ulimit -s unlimited 2>/dev/null; exec ./run'], cwd=d, capture_output=True,
                       text=True, timeout=600)
    if r.returncode != 0:
        raise RuntimeError('extracted model failed: ' + r.stderr[:2000])
    return parse_reports(r.stdout)


def coq_string_lines(out):
    """parse the output of `Eval vm_compute in (report ...)`: a list of Coq strings"""
    # join wrapped lines, then split the list literal on `"; "` boundaries
    txt = ' '.join(l.strip() for l in out.split('\n'))
    start = txt.index('= [') + 3
    end = txt.rindex(']')
    body = txt[start:end]
    items = []
    cur = []
    i = 0
    instr = False
    while i < len(body):
        c = body[i]
        if instr:
            if c == '"':
                if i + 1 < len(body) and body[i + 1] == '"':
                    cur.append('"')
                    i += 1
                else:
                    instr = False
                    items.append(''.join(cur))
                    cur = []
            else:
                cur.append(c)
        elif c == '"':
            instr = True
        i += 1
    return items


def run_kernel(progs, workdir, name='kcases'):
    """evaluate with vm_compute inside coqc; same report text as the extracted route"""
    os.makedirs(workdir, exist_ok=True)
    vf = os.path.join(workdir, name + '.v')
    with open(vf, 'w') as f:
        f.write('From Coq Require Import ZArith List Bool String.\n'
                'From PS.model Require Import Smt Enc Ind Prog Driver.\nFrom PS.spec Require Import Spec Report.\n'
                'Import ListNotations.\nOpen Scope string_scope.\n')
        for i, p in enumerate(progs):
            f.write('Definition p%d : list op := %s.\n' % (i, to_coq(p)))
            f.write('Eval vm_compute in ("PROG" :: report p%d ++ ["END"]).\n' % i)
    r = subprocess.run(['coqc'] + COQFLAGS + [vf], cwd=COQ, capture_output=True, text=True, timeout=1200)
    if r.returncode != 0:
        raise RuntimeError('coqc failed: ' + (r.stderr or r.stdout)[:3000])
    chunks = r.stdout.split(': list string')
    text = []
    for ch in chunks:
        if '= [' not in ch:
            continue
        for l in coq_string_lines(ch):
            text.append('PROG 0' if l == 'PROG' else l)
    return parse_reports('\n'.join(text))
