"""Correspondence (tie) between /repo's implementation and the Coq model on sampled programs.

For each program: O1 (accept / reject index) and O3 (assertion set after initialize()),
compared semantically and directionally with z3; plus the spec sweep impl_all /\\ not clause.
"""
import multiprocessing as mp
import os
import sys
import time
import traceback

import terms

_REPORTS = None

# clause kinds that follow from the assertions of their own element alone (exactly the kinds covered by the
# per-element soundness lemmas); only these may be swept element-locally when the whole program is infeasible
LOCAL_KINDS = {
    'start_ge_0', 'duration', 'release', 'deadline',
    'static_span', 'dynamic_span', 'selection_count', 'selected_span', 'unselected_idle', 'inert_busy',
    'start_at', 'start_after', 'end_at', 'end_before', 'precedence', 'start_synced', 'end_synced', 'dont_overlap',
    'group_window', 'group_length', 'group_order', 'scheduleN_lower',
    'force_schedule', 'condition_schedule', 'dependency', 'force_n',
    'not', 'or', 'and', 'xor', 'implies', 'if_then_else', 'expression', 'force_apply_n',
    'unavailable', 'workload', 'interrupted_fixed', 'same_workers', 'distinct_workers',
    'periodic_unavailable', 'periodic_interrupted_fixed', 'non_delay', 'distance', 'contiguous_disjoint', 'contiguous_successor',
    # C08: follow from the indicator's own assertions
    'expression', 'utilization', 'nb_tasks_assigned', 'tardiness', 'earliness', 'nb_tardy', 'max_lateness_bound',
    'max_lateness_attained', 'resource_cost', 'max_buffer_bound', 'max_buffer_attained', 'min_buffer_bound',
    'min_buffer_attained', 'min_start_bound', 'min_start_attained', 'greatest_start_bound', 'greatest_start_attained',
    'weighted_starts', 'flowtime', 'weighted_completion', 'indicator_target', 'indicator_lower_bound', 'indicator_upper_bound',
}


def _tag_family(tag):
    return tag.split(':')[0]


def check_one(args):
    """runs in a worker process"""
    idx, prog, rep, opts = args
    import z3
    import impl
    import compare
    out = {'idx': idx, 'o1': None, 'fwd_bad': [], 'bwd_bad': [], 'unknown': 0, 'spec_bad': [], 'n_impl': 0, 'n_model': 0,
           'syntactic': False, 'error': None, 'model_run': rep['run']}
    try:
        im = impl.Impl()
        r = im.run(prog, mid_init_at=opts.get('mid_init_by_idx', {}).get(idx))
        out['impl_run'] = r[:2] if r[0] == 'err' else ('ok',)
        out['impl_err'] = r[2] if r[0] == 'err' else None
        mrun = rep['run']
        if mrun[0] == 'unsup':
            out['o1'] = 'unsupported'
            return out
        if (mrun[0] == 'ok') != (r[0] == 'ok') or (mrun[0] == 'err' and mrun[1] != r[1]):
            out['o1'] = 'mismatch'
            return out
        out['o1'] = 'agree'
        if r[0] != 'ok' or im.pb is None:
            return out
        im.initialize(**opts.get('solver_kw_by_idx', {}).get(idx, opts.get('solver_kw', {})))
        A = im.assertions()
        ma, sp = compare.parse_model(rep)
        out['n_impl'], out['n_model'] = len(A), len(ma)
        mexprs = [e for _, e in ma]
        if compare.syntactic_equal(A, mexprs):
            out['syntactic'] = True
        feas = compare.entails(A, [('false', z3.BoolVal(False))])[0][1]
        out['impl_feasible'] = {'invalid': True, 'valid': False}.get(feas)
        if not out['syntactic']:
            if out['impl_feasible']:
                # the weakest condition under which the theorem transfers (DESIGN 3.3)
                fw = compare.entails(A, ma)
            else:
                # an infeasible assertion set entails everything: compare element by element (O2)
                fw = []
                for kind, objs in (('task', im.tasks), ('cons', im.cons), ('ind', im.inds)):
                    for eid, obj in objs.items():
                        tagname = '%s:%d' % (kind, eid)
                        goals = [(t, e) for t, e in ma if t == tagname]
                        if goals:
                            fw += compare.entails(im.rename(obj.get_z3_assertions()), goals)
            for (label, res, m) in fw:
                if res == 'invalid':
                    out['fwd_bad'].append({'tag': label, 'model_assert': [e for t, e in ma if t == label][0].sexpr()[:300],
                                           'witness': compare.model_to_dict(m)})
                elif res == 'unknown':
                    out['unknown'] += 1
            mfeas = compare.entails(mexprs, [('false', z3.BoolVal(False))])[0][1] == 'invalid'
            if mfeas:
                bw = compare.entails(mexprs, [(i, a) for i, a in enumerate(A)])
                for (label, res, m) in bw:
                    if res == 'invalid':
                        out['bwd_bad'].append({'impl_index': label, 'impl_assert': A[label].sexpr()[:300],
                                               'witness': compare.model_to_dict(m)})
                    elif res == 'unknown':
                        out['unknown'] += 1
            else:
                for kind, objs in (('task', im.tasks), ('cons', im.cons), ('ind', im.inds)):
                    for eid, obj in objs.items():
                        tagname = '%s:%d' % (kind, eid)
                        hyps = [e for t, e in ma if t == tagname]
                        if kind == 'cons' and getattr(obj, '_created_from_assertion', False):
                            continue
                        goals = [((tagname, i), a) for i, a in enumerate(im.rename(obj.get_z3_assertions()))]
                        for (label, res, m) in compare.entails(hyps, goals):
                            if res == 'invalid':
                                out['bwd_bad'].append({'impl_index': str(label), 'impl_assert': dict(goals)[label].sexpr()[:300],
                                                       'witness': compare.model_to_dict(m)})
                            elif res == 'unknown':
                                out['unknown'] += 1
        if opts.get('sweep', True) and sp:
            keys = opts.get('spec_prefixes')
            goals = [(k, e) for k, e in sp if keys is None or k.startswith(tuple(keys))]
            if out['impl_feasible']:
                sw = compare.entails(A, goals)
            else:
                # infeasible program: sweep each clause against the assertions of its own element only
                sw = []
                for k, e in goals:
                    el = k.split('/')[1]
                    kind, _, eid = el.partition(':')
                    objs = {'task': im.tasks, 'cons': im.cons, 'ind': im.inds}.get(kind)
                    if objs is None or not eid.isdigit() or int(eid) not in objs:
                        continue
                    if k.split('/')[-1] not in LOCAL_KINDS:
                        continue
                    sw += compare.entails(im.rename(objs[int(eid)].get_z3_assertions()), [(k, e)])
            for (label, res, m) in sw:
                if res == 'invalid':
                    out['spec_bad'].append({'key': label, 'witness': compare.model_to_dict(m)})
                elif res == 'unknown':
                    out['unknown'] += 1
            out['n_spec'] = len(goals)
            kk = {}
            for k, _ in goals:
                kk[k.split('/')[-1]] = kk.get(k.split('/')[-1], 0) + 1
            out['spec_kinds'] = kk
        if opts.get('lost_probe') and out.get('impl_feasible') and sp:
            import lostprobe
            if lostprobe.probe_ok(prog):
                out['lost_probed'] = 1
                out['lost'] = lostprobe.probe(z3, compare, prog, A, ma, sp, seed=opts.get('seed', 0) * 100003 + idx,
                                              tries=opts.get('lost_tries', 3))
    except Exception as e:  # harness failure: reported, never silently dropped
        out['error'] = ''.join(traceback.format_exception_only(type(e), e))[-400:] + traceback.format_exc()[-1200:]
    return out


def run_tie(progs, reports, opts=None, procs=16):
    opts = opts or {}
    jobs = [(i, p, reports[i], opts) for i, p in enumerate(progs)]
    if procs <= 1:
        return [check_one(j) for j in jobs]
    import common
    return common.pmap(check_one, jobs, procs=procs)
