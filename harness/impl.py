"""Run a program (list of op terms) against the real library in /repo and observe it.

Observables: O1 accept/reject per op, O3 solver assertions after initialize() with
uuid/fresh names canonicalised to the model's structured names (DESIGN 3.2).
"""
import contextlib
import io
import re
import os
import sys

import z3

import processscheduler as ps
import processscheduler.base as psbase

from terms import zval, nval, optval

PK = {'Lax': 'lax', 'Strict': 'strict', 'Tight': 'tight'}
PB = {'PbMin': 'min', 'PbMax': 'max', 'PbExact': 'exact'}


def wkey(w):
    return (w[0],) + tuple(nval(x) for x in w[1:])


def default_naming(kind, i):
    return '%s%d' % (kind, i)


class Impl:
    def __init__(self, naming=None):
        self.nm = naming or getattr(self, 'nm', None) or default_naming
        psbase.active_problem = None
        self.pb = None
        self.tasks = {}
        self.workers = {}      # wkey -> Worker
        self.cumuls = {}
        self.selects = {}      # user id -> SelectWorkers
        self.autos = []        # SelectWorkers created by get_select_workers, in order
        self.cons = {}
        self.buffers = {}
        self.inds = {}
        self.objs = []
        self.created_inds = {}   # indicator id -> Indicator created by an objective
        self.trace = []        # per op: 'ok' or 'err:<type>'
        self.solver = None
        self._pairs = None

    # ---------------- formula translation (raw user expressions) ----------------
    def ivar(self, x):
        h = x[0]
        if h == 'VStart':
            return self.tasks[nval(x[1])]._start
        if h == 'VEnd':
            return self.tasks[nval(x[1])]._end
        if h == 'VDur':
            return self.tasks[nval(x[1])]._duration
        if h == 'VHorizon':
            return self.pb._horizon
        if h == 'VUser':
            return z3.Int('u%d' % nval(x[1]))
        if h == 'VInd':
            return self.inds[nval(x[1])]._indicator_variable
        raise ValueError('unsupported raw ivar %r' % (x,))

    def bvar(self, x):
        h = x[0]
        if h == 'BSched':
            s = self.tasks[nval(x[1])]._scheduled
            return s if isinstance(s, z3.BoolRef) else z3.BoolVal(bool(s))
        if h == 'BUser':
            return z3.Bool('ub%d' % nval(x[1]))
        raise ValueError('unsupported raw bvar %r' % (x,))

    def term(self, t):
        h = t[0]
        if h == 'TC':
            return z3.IntVal(zval(t[1]))
        if h == 'TV':
            return self.ivar(t[1])
        if h == 'TAdd':
            return z3.Sum([self.term(x) for x in t[1]])
        if h == 'TSub':
            return self.term(t[1]) - self.term(t[2])
        if h == 'TMul':
            return self.term(t[1]) * self.term(t[2])
        if h == 'TDiv':
            return self.term(t[1]) / self.term(t[2])
        if h == 'TMod':
            return self.term(t[1]) % self.term(t[2])
        if h == 'TIte':
            return z3.If(self.form(t[1]), self.term(t[2]), self.term(t[3]))
        raise ValueError(t)

    def cond(self, f):
        """condition of Implies / IfThenElse: the constants are passed as Python bools (the field type is Union[BoolRef, bool])"""
        if f[0] == 'FT':
            return True
        if f[0] == 'FF':
            return False
        return self.form(f)

    def form(self, f):
        h = f[0]
        if h == 'FT':
            return z3.BoolVal(True)
        if h == 'FF':
            return z3.BoolVal(False)
        if h == 'FB':
            return self.bvar(f[1])
        cmpo = {'FLe': lambda a, b: a <= b, 'FLt': lambda a, b: a < b, 'FGe': lambda a, b: a >= b,
                'FGt': lambda a, b: a > b, 'FEq': lambda a, b: a == b, 'FNe': lambda a, b: a != b}
        if h in cmpo:
            return cmpo[h](self.term(f[1]), self.term(f[2]))
        if h == 'FAnd':
            return z3.And([self.form(x) for x in f[1]])
        if h == 'FOr':
            return z3.Or([self.form(x) for x in f[1]])
        if h == 'FNot':
            return z3.Not(self.form(f[1]))
        if h == 'FXor':
            return z3.Xor(self.form(f[1]), self.form(f[2]))
        if h == 'FImp':
            return z3.Implies(self.form(f[1]), self.form(f[2]))
        if h == 'FIte':
            return z3.If(self.form(f[1]), self.form(f[2]), self.form(f[3]))
        if h == 'FIff':
            return self.form(f[1]) == self.form(f[2])
        raise ValueError(f)

    # ---------------- references ----------------
    def rref(self, r):
        if r[0] == 'RW':
            return self.workers[wkey(r[1])]
        return self.cumuls[nval(r[1])]

    def resobj(self, r):
        if r[0] == 'ResW':
            return self.workers[wkey(r[1])]
        return self.cumuls[nval(r[1])]

    def operand(self, x):
        if x[0] == 'OpC':
            return self.cons[nval(x[1])]
        return self.form(x[1])

    def cost(self, c):
        h = c[0]
        if h == 'CostConst':
            return ps.ConstantFunction(value=zval(c[1]))
        if h == 'CostLinear':
            return ps.LinearFunction(slope=zval(c[1]), intercept=zval(c[2]))
        return ps.PolynomialFunction(coefficients=[zval(x) for x in c[1]])

    # ---------------- constructors ----------------
    def new_constraint(self, cid, opt, e):
        name = self.nm('K', cid)
        h = e[0]
        T = lambda x: self.tasks[nval(x)]
        TL = lambda l: [self.tasks[nval(x)] for x in l]
        IV = lambda l: [(zval(p[1]), zval(p[2])) for p in l]
        kw = dict(name=name, optional=opt)
        if h == 'CStartAt':
            return ps.TaskStartAt(task=T(e[1]), value=zval(e[2]), **kw)
        if h == 'CStartAfter':
            return ps.TaskStartAfter(task=T(e[1]), value=zval(e[2]), kind='strict' if e[3] else 'lax', **kw)
        if h == 'CEndAt':
            return ps.TaskEndAt(task=T(e[1]), value=zval(e[2]), **kw)
        if h == 'CEndBefore':
            return ps.TaskEndBefore(task=T(e[1]), value=zval(e[2]), kind='strict' if e[3] else 'lax', **kw)
        if h == 'CPrecedence':
            return ps.TaskPrecedence(task_before=T(e[1]), task_after=T(e[2]), offset=zval(e[3]), kind=PK[e[4][0]], **kw)
        if h == 'CStartSynced':
            return ps.TasksStartSynced(task_1=T(e[1]), task_2=T(e[2]), **kw)
        if h == 'CEndSynced':
            return ps.TasksEndSynced(task_1=T(e[1]), task_2=T(e[2]), **kw)
        if h == 'CDontOverlap':
            return ps.TasksDontOverlap(task_1=T(e[1]), task_2=T(e[2]), **kw)
        if h == 'CContiguous':
            return ps.TasksContiguous(list_of_tasks=TL(e[1]), **kw)
        if h in ('CUGroup', 'COGroup'):
            extra = {}
            if e[2] is not None:
                extra['time_interval'] = (zval(e[2][1][1]), zval(e[2][1][2]))
            if e[3] is not None:
                extra['time_interval_length'] = zval(e[3][1])
            if h == 'COGroup':
                return ps.OrderedTaskGroup(list_of_tasks=TL(e[1]), kind=PK[e[4][0]], **extra, **kw)
            return ps.UnorderedTaskGroup(list_of_tasks=TL(e[1]), **extra, **kw)
        if h == 'CForceSched':
            return ps.OptionalTaskForceSchedule(task=T(e[1]), to_be_scheduled=e[2], **kw)
        if h == 'CCondSched':
            return ps.OptionalTaskConditionSchedule(task=T(e[1]), condition=self.form(e[2]), **kw)
        if h == 'CDependency':
            return ps.OptionalTasksDependency(task_1=T(e[1]), task_2=T(e[2]), **kw)
        if h == 'CForceN':
            return ps.ForceScheduleNOptionalTasks(list_of_optional_tasks=TL(e[1]), nb_tasks_to_schedule=zval(e[2]),
                                                  kind=PB[e[3][0]], **kw)
        if h == 'CScheduleN':
            return ps.ScheduleNTasksInTimeIntervals(list_of_tasks=TL(e[1]), nb_tasks_to_schedule=zval(e[2]),
                                                    list_of_time_intervals=IV(e[3]), kind=PB[e[4][0]], **kw)
        if h == 'CExpr':
            return ps.ConstraintFromExpression(expression=self.form(e[1]), **kw)
        if h == 'CForceApplyN':
            return ps.ForceApplyNOptionalConstraints(list_of_optional_constraints=[self.cons[nval(x)] for x in e[1]],
                                                     nb_constraints_to_apply=zval(e[2]), kind=PB[e[3][0]], **kw)
        if h == 'CNot':
            return ps.Not(constraint=self.operand(e[1]), **kw)
        if h == 'COr':
            return ps.Or(list_of_constraints=[self.operand(x) for x in e[1]], **kw)
        if h == 'CAnd':
            return ps.And(list_of_constraints=[self.operand(x) for x in e[1]], **kw)
        if h == 'CXor':
            return ps.Xor(constraint_1=self.operand(e[1]), constraint_2=self.operand(e[2]), **kw)
        if h == 'CImplies':
            return ps.Implies(condition=self.cond(e[1]), list_of_constraints=[self.operand(x) for x in e[2]], **kw)
        if h == 'CIte':
            return ps.IfThenElse(condition=self.cond(e[1]), then_list_of_constraints=[self.operand(x) for x in e[2]],
                                 else_list_of_constraints=[self.operand(x) for x in e[3]], **kw)
        if h == 'CWorkLoad':
            d = {}
            for p in e[2]:
                d[(zval(p[1][1]), zval(p[1][2]))] = zval(p[2])
            return ps.WorkLoad(resource=self.resobj(e[1]), dict_time_intervals_and_bound=d, kind=PB[e[3][0]], **kw)
        if h == 'CUnavailable':
            return ps.ResourceUnavailable(resource=self.resobj(e[1]), list_of_time_intervals=IV(e[2]), **kw)
        if h in ('CPeriodicUnavailable', 'CPeriodicInterrupted'):
            cls = ps.ResourcePeriodicallyUnavailable if h == 'CPeriodicUnavailable' else ps.ResourcePeriodicallyInterrupted
            return cls(resource=self.resobj(e[1]), list_of_time_intervals=IV(e[2]), period=zval(e[3]),
                       start=zval(e[4]), offset=zval(e[5]), end=optval(e[6], zval), **kw)
        if h == 'CInterrupted':
            return ps.ResourceInterrupted(resource=self.resobj(e[1]), list_of_time_intervals=IV(e[2]), **kw)
        if h == 'CNonDelay':
            return ps.ResourceNonDelay(resource=self.resobj(e[1]), **kw)
        if h == 'CDistance':
            extra = {}
            if e[3] is not None:
                extra['list_of_time_intervals'] = IV(e[3][1])
            return ps.ResourceTasksDistance(resource=self.resobj(e[1]), distance=zval(e[2]), mode=PB[e[4][0]], **extra, **kw)
        if h == 'CSameWorkers':
            return ps.SameWorkers(select_workers_1=self.selects[nval(e[1])], select_workers_2=self.selects[nval(e[2])], **kw)
        if h == 'CDistinctWorkers':
            return ps.DistinctWorkers(select_workers_1=self.selects[nval(e[1])], select_workers_2=self.selects[nval(e[2])], **kw)
        if h == 'CLoad':
            return ps.TaskLoadBuffer(task=T(e[1]), buffer=self.buffers[nval(e[2])], quantity=zval(e[3]), **kw)
        if h == 'CUnload':
            return ps.TaskUnloadBuffer(task=T(e[1]), buffer=self.buffers[nval(e[2])], quantity=zval(e[3]), **kw)
        if h == 'CIndTarget':
            return ps.IndicatorTarget(indicator=self.inds[nval(e[1])], value=zval(e[2]), **kw)
        if h == 'CIndBounds':
            extra = {}
            if e[2] is not None:
                extra['lower_bound'] = zval(e[2][1])
            if e[3] is not None:
                extra['upper_bound'] = zval(e[3][1])
            return ps.IndicatorBounds(indicator=self.inds[nval(e[1])], **extra, **kw)
        raise ValueError('unknown constraint %r' % (h,))

    def exec_op(self, op):
        h = op[0]
        if h == 'ONewProblem':
            hz = optval(op[1], zval)
            self.__init__()
            self.pb = ps.SchedulingProblem(name='pb', horizon=hz) if hz is not None else ps.SchedulingProblem(name='pb')
            return
        if h == 'ONewTask':
            tid = nval(op[1])
            k = op[2]
            kw = dict(name=self.nm('T', tid), optional=op[3], work_amount=zval(op[4]), release_date=optval(op[5], zval),
                      due_date=optval(op[6], zval), due_date_is_deadline=op[7], priority=zval(op[8]))
            if k[0] == 'KZero':
                t = ps.ZeroDurationTask(**kw)
            elif k[0] == 'KFixed':
                t = ps.FixedDurationTask(duration=zval(k[1]), **kw)
            else:
                t = ps.VariableDurationTask(min_duration=zval(k[1]), max_duration=optval(k[2], zval),
                                            allowed_durations=optval(k[3], lambda l: [zval(x) for x in l]), **kw)
            self.tasks[tid] = t
            return
        if h == 'ONewWorker':
            wid = nval(op[1])
            w = ps.Worker(name=self.nm('W', wid), productivity=zval(op[2]), cost=self.cost(op[3]))
            self.workers[('WPlain', wid)] = w
            return
        if h == 'ONewCumulative':
            cid = nval(op[1])
            c = ps.CumulativeWorker(name=self.nm('C', cid), size=zval(op[2]), productivity=zval(op[3]), cost=self.cost(op[4]))
            self.cumuls[cid] = c
            for i, u in enumerate(c._cumulative_workers):
                self.workers[('WUnit', cid, i)] = u
            return
        if h == 'ONewSelect':
            sid = nval(op[1])
            s = ps.SelectWorkers(name=self.nm('S', sid), list_of_workers=[self.rref(r) for r in op[2]],
                                 nb_workers_to_select=zval(op[3]), kind=PB[op[4][0]])
            self.selects[sid] = s
            return
        if h == 'OAddRequired':
            t = self.tasks[nval(op[1])]
            r = op[2]
            if r[0] == 'ArgW':
                res = self.workers[wkey(r[1])]
            elif r[0] == 'ArgC':
                res = self.cumuls[nval(r[1])]
            else:
                res = self.selects[nval(r[1])]
            before = set(self.pb.select_workers.keys())
            try:
                t.add_required_resource(res, dynamic=op[3], delay_in=zval(op[4]), early_out=zval(op[5]))
            finally:
                for k, v in self.pb.select_workers.items():
                    if k not in before:
                        self.autos.append(v)
            return
        if h == 'ONewConstraint':
            cid = nval(op[1])
            c = self.new_constraint(cid, op[2], op[3])
            self.cons[cid] = c
            return
        if h == 'ONewBuffer':
            bid = nval(op[1])
            cls = ps.ConcurrentBuffer if op[2] else ps.NonConcurrentBuffer
            kw = {}
            for key, v in zip(('initial_level', 'final_level', 'lower_bound', 'upper_bound'), op[3:7]):
                if v is not None:
                    kw[key] = zval(v[1])
            self.buffers[bid] = cls(name=self.nm('B', bid), **kw)
            return
        if h == 'ONewIndicator':
            iid = nval(op[1])
            self.inds[iid] = self.new_indicator(iid, op[2], op[3])
            return
        if h == 'ONewObjective':
            before = set(self.pb.indicators.keys())
            try:
                o = self.new_objective(op[1])
                self.objs.append(o)
            finally:
                for k, v in self.pb.indicators.items():
                    if k not in before:
                        self.inds[nval(op[2])] = v
                        self.created_inds[nval(op[2])] = v
            return
        raise ValueError('unknown op %r' % (h,))

    def tasklist(self, ts):
        return None if ts is None else [self.tasks[nval(x)] for x in ts[1]]

    def new_indicator(self, iid, e, bounds):
        h = e[0]
        kw = dict(name=self.nm('I', iid))
        if bounds is not None:
            kw['bounds'] = (zval(bounds[1][1]), zval(bounds[1][2]))
        if h == 'IExpr':
            return ps.IndicatorFromMathExpression(expression=self.term(e[1]), **kw)
        if h == 'IUtilization':
            return ps.IndicatorResourceUtilization(resource=self.resobj(e[1]), **kw)
        if h == 'INbTasks':
            return ps.IndicatorNumberTasksAssigned(resource=self.resobj(e[1]), **kw)
        if h == 'IIdle':
            return ps.IndicatorResourceIdle(resource=self.resobj(e[1]), **kw)
        if h == 'ITardiness':
            return ps.IndicatorTardiness(list_of_tasks=self.tasklist(e[1]), **kw)
        if h == 'IEarliness':
            return ps.IndicatorEarliness(list_of_tasks=self.tasklist(e[1]), **kw)
        if h == 'INbTardy':
            return ps.IndicatorNumberOfTardyTasks(list_of_tasks=self.tasklist(e[1]), **kw)
        if h == 'IMaxLateness':
            return ps.IndicatorMaximumLateness(list_of_tasks=self.tasklist(e[1]), **kw)
        if h == 'ICost':
            return ps.IndicatorResourceCost(list_of_resources=[self.resobj(r) for r in e[1]], **kw)
        if h == 'IMaxBuf':
            return ps.IndicatorMaxBufferLevel(buffer=self.buffers[nval(e[1])], **kw)
        if h == 'IMinBuf':
            return ps.IndicatorMinBufferLevel(buffer=self.buffers[nval(e[1])], **kw)
        raise ValueError('unknown indicator %r' % (h,))

    def new_objective(self, o):
        h = o[0]
        if h == 'OMakespan':
            return ps.ObjectiveMinimizeMakespan()
        if h == 'ORaw':
            return ps.Objective(name=self.nm('O', nval(o[1])), target=self.term(o[2]), weight=zval(o[3]),
                                kind='maximize' if o[4] else 'minimize')
        if h == 'OMaxUtilization':
            return ps.ObjectiveMaximizeResourceUtilization(resource=self.resobj(o[1]))
        if h == 'OMinCost':
            return ps.ObjectiveMinimizeResourceCost(list_of_resources=[self.resobj(r) for r in o[1]])
        tl = lambda ts: {} if ts is None else {'list_of_tasks': [self.tasks[nval(x)] for x in ts[1]]}
        if h == 'OStartLatest':
            return ps.ObjectiveTasksStartLatest(**tl(o[1]))
        if h == 'OStartEarliest':
            return ps.ObjectiveTasksStartEarliest()
        if h == 'OGreatestStart':
            return ps.ObjectiveMinimizeGreatestStartTime(**tl(o[1]))
        if h == 'OFlowtime':
            return ps.ObjectiveMinimizeFlowtime(**tl(o[1]))
        if h == 'OPriorities':
            return ps.ObjectivePriorities()
        if h == 'OFlowtimeSingle':
            kw = {}
            if o[2] is not None:
                kw['time_interval'] = (zval(o[2][1][1]), zval(o[2][1][2]))
            return ps.ObjectiveMinimizeFlowtimeSingleResource(resource=self.resobj(o[1]), **kw)
        if h == 'OMaxBufMax':
            return ps.ObjectiveMaximizeMaxBufferLevel(buffer=self.buffers[nval(o[1])])
        if h == 'OMinBufMax':
            return ps.ObjectiveMinimizeMaxBufferLevel(buffer=self.buffers[nval(o[1])])
        if h == 'OMinIndicator':
            return ps.ObjectiveMinimizeIndicator(target=self.inds[nval(o[1])], weight=zval(o[2]))
        if h == 'OMaxIndicator':
            return ps.ObjectiveMaximizeIndicator(target=self.inds[nval(o[1])], weight=zval(o[2]))
        raise ValueError('unknown objective %r' % (h,))

    def run(self, ops, mid_init_at=None, early_solver_kw=None):
        """Execute until the first rejected op. Returns ('ok',) or ('err', idx, exc type).
        mid_init_at = k: after op k a solver of the problem built so far is created, initialised and thrown away (an
        intermediate solve / export must not change what the problem means once it is extended)"""
        self.early_solver = None
        for i, op in enumerate(ops):
            try:
                with contextlib.redirect_stdout(io.StringIO()):
                    self.exec_op(op)
                    if early_solver_kw is not None and self.early_solver is None and self.pb is not None:
                        # the solver object is created as soon as the problem exists (not initialised): what it does later
                        # depends on the problem as it is when it is initialised
                        self.early_solver = ps.SchedulingSolver(problem=self.pb, **early_solver_kw)
                    if mid_init_at is not None and i == mid_init_at and self.pb is not None:
                        try:
                            ps.SchedulingSolver(problem=self.pb).initialize()
                        except Exception:
                            pass
            except (ValueError, TypeError, AssertionError, AttributeError, KeyError, NameError, z3.Z3Exception) as e:
                if isinstance(e, KeyError) and not _from_library(e):
                    raise
                return ('err', i, type(e).__name__ + ': ' + str(e)[:120])
        return ('ok',)

    # ---------------- canonical names ----------------
    def rename_pairs(self):
        """(impl constant, canonical constant) pairs for uuid / fresh names."""
        pairs = []
        mapped = set()

        def sel_pairs(s, tagname):
            for w, b in s._selection_dict.items():
                pairs.append((b, z3.Bool('Selected_%s_%s' % (w.name, tagname))))
        for sid, s in self.selects.items():
            sel_pairs(s, 'S%d' % sid)
        for k, s in enumerate(self.autos):
            sel_pairs(s, 'A%d' % k)
        for cid, c in self.cons.items():
            if isinstance(c._applied, z3.BoolRef):
                pairs.append((c._applied, z3.Bool('K%d_applied' % cid)))
            owner = 'K%d' % cid
            if hasattr(c, '_start') and hasattr(c, '_end') and isinstance(c, ps.task_constraint.TaskGroup):
                pairs.append((c._start, z3.Int(owner + '_aux_0')))
                pairs.append((c._end, z3.Int(owner + '_aux_1')))
                continue
            for a, b in aux_pairs(owner, c.get_z3_assertions(), mapped):
                pairs.append((a, b))
        for iid, ind in self.inds.items():
            owner = 'I%d' % iid
            if iid in self.created_inds:
                pairs.append((ind._indicator_variable, z3.Int('Indicator_' + owner)))
            named = []
            for c in consts_in_order(ind.get_z3_assertions()):
                n = c.decl().name()
                if n in ('SmallestStartTimeVar', 'GreatestStartTime'):
                    named.append((0, c))
                elif n.startswith('FlowtimeSingleResource'):
                    named.append((0, c))
                elif n.startswith('GreatestTaskEndTimeInTimePeriodForResource'):
                    named.append((1, c))
                elif n.startswith('SmallestTaskEndTimeInTimePeriodForResource'):
                    named.append((2, c))
            for k, c in named:
                if c.get_id() not in mapped:
                    mapped.add(c.get_id())
                    pairs.append((c, z3.Int('%s_aux_%d' % (owner, k))))
            for a, b in aux_pairs(owner, ind.get_z3_assertions(), mapped):
                pairs.append((a, b))
        # buffers: the sort variables are created by initialize(), buffer after buffer
        if self.solver is not None and self.buffers:
            fresh = [c for c in consts_in_order(list(self.solver._solver.assertions()))
                     if _FRESH.match(c.decl().name()) and c.get_id() not in mapped]
            fresh.sort(key=lambda c: int(_FRESH.match(c.decl().name()).group(1)))
            pos = 0
            order = {id(b): k for k, b in self.buffers.items()}
            for b in self.pb.buffers:
                n = len(b._unloading_tasks) + len(b._loading_tasks)
                cnt = 2 * (n - 1) * n if isinstance(b, ps.ConcurrentBuffer) and n > 0 else (0 if isinstance(b, ps.ConcurrentBuffer) else n)
                for k, c in enumerate(fresh[pos:pos + cnt]):
                    pairs.append((c, z3.Int('B%d_aux_%d' % (order[id(b)], k))))
                pos += cnt
        return pairs

    def initialize(self, **solver_kw):
        with contextlib.redirect_stdout(io.StringIO()):
            self.solver = ps.SchedulingSolver(problem=self.pb, **solver_kw)
            self.solver.initialize()
        return self.solver

    def rename(self, exprs):
        """canonical renaming of uuid / fresh names (DESIGN 3.2)"""
        if getattr(self, '_pairs', None) is None:
            self._pairs = self.rename_pairs()
        out = []
        for a in exprs:
            if not isinstance(a, z3.ExprRef):
                a = z3.BoolVal(bool(a))
            out.append(z3.substitute(a, *self._pairs) if self._pairs else a)
        return out

    def assertions(self):
        """solver assertions after initialize(), canonically renamed"""
        return self.rename(list(self.solver._solver.assertions()))


def _from_library(e):
    tb = e.__traceback__
    while tb is not None:
        if '/processscheduler/' in tb.tb_frame.f_code.co_filename:
            return True
        tb = tb.tb_next
    return False


_FRESH = re.compile(r'^x!(\d+)$')
_UUIDINT = ('Overlap_',)
_UUIDBOOL = ('InTimeIntervalTask_',)


def consts_in_order(exprs):
    """uninterpreted constants in DFS order of first occurrence"""
    seen = {}
    out = []

    def go(e):
        if e.get_id() in seen:
            return
        seen[e.get_id()] = True
        if z3.is_app(e):
            if e.num_args() == 0 and e.decl().kind() == z3.Z3_OP_UNINTERPRETED:
                out.append(e)
            for ch in e.children():
                go(ch)
        elif z3.is_quantifier(e):
            go(e.body())
    for a in exprs:
        go(a)
    return out


def aux_pairs(owner, asserts, mapped):
    """fresh / uuid-named constants first seen in this element, by creation order"""
    cs = [c for c in consts_in_order(asserts) if c.get_id() not in mapped]
    for c in cs:
        if _FRESH.match(c.decl().name()) or c.decl().name().startswith(_UUIDINT + _UUIDBOOL):
            mapped.add(c.get_id())
    fresh = sorted([c for c in cs if _FRESH.match(c.decl().name())], key=lambda c: int(_FRESH.match(c.decl().name()).group(1)))
    named_i = [c for c in cs if c.decl().name().startswith(_UUIDINT)]
    named_b = [c for c in cs if c.decl().name().startswith(_UUIDBOOL)]
    pairs = []
    for k, c in enumerate(fresh + named_i):
        pairs.append((c, z3.Int('%s_aux_%d' % (owner, k))))
    for k, c in enumerate(named_b):
        pairs.append((c, z3.Bool('%s_baux_%d' % (owner, k))))
    return pairs
