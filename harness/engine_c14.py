"""Engine for C14 (meaning independent of names, declaration order and earlier problems): theorems about the model
(a new problem starts from scratch; the Spec does not depend on task numbers or declaration order) + experiments on the
real library: each sampled problem is built and solved (i) in a fresh process, (ii) under other element names
(plain and adversarial), (iii) with the declarations of one kind permuted, (iv) again after unrelated problems
were built and solved in the same process; the constraint systems are compared after canonical renaming and the
verdict, the optimum and the set of schedules (enumerated to exhaustion on small horizons) must coincide."""
import collections
import contextlib
import io
import json
import multiprocessing as mp
import os
import random
import re
import time
import traceback
import warnings

import common
import gen
import terms
import engine_solver

CONFIG = {'C14': dict(n=(70, 700))}

NAMINGS = {
    'plain': lambda k, i: '%s%d' % (k, i),
    'words': lambda k, i: {'T': 'task', 'W': 'machine', 'C': 'pool', 'S': 'choice', 'K': 'rule', 'B': 'stock', 'I': 'kpi', 'O': 'goal'}[k] + 'Q%dz' % i,
    'underscored': lambda k, i: '%s_%d_' % ({'T': 'job', 'W': 'res', 'C': 'cum', 'S': 'sel', 'K': 'con', 'B': 'buf', 'I': 'ind', 'O': 'obj'}[k], i),
    # distinct names that share a prefix across kinds (worker M10 next to cumulative worker M1, task M1x next to both)
    'shared_prefix': lambda k, i: {'W': 'M%d0', 'C': 'M%d', 'T': 'M%dx'}.get(k, k + '%d') % i,
}
# free-text names: distinct names of one kind differ only by a character that is not a letter, a digit or an underscore
# (compared on verdict / optimum / schedules: z3 prints such symbols quoted, the texts are not comparable)
SEPS = '-. #:+/~@'
FREE_TEXT = {
    'punctuation': lambda k, i: {'T': 'job', 'W': 'res', 'C': 'cum', 'S': 'sel', 'K': 'con', 'B': 'buf', 'I': 'ind', 'O': 'obj'}[k]
    + SEPS[i % len(SEPS)] + str(i // len(SEPS)),
}
# adversarial: names that are prefixes of each other / contain the infixes the library builds variable names with
ADVERSARIAL = {
    'prefixes': lambda k, i: {'T': 'A', 'W': 'A', 'C': 'A', 'S': 'A', 'K': 'A', 'B': 'A', 'I': 'A', 'O': 'A'}[k] * 1 + '1' * i if k in 'TW' else '%s%d' % (k, i),
    'infixes': lambda k, i: ('W1_busy_T%d' % i) if k == 'T' and i == 2 else ('X%d_CumulativeWorker_1' % i if k == 'W' and i == 2 else '%s%d' % (k, i)),
}
MAX_ENUM = 300


PATTERNS = ['parking', 'cumul_units', 'shared_workers', 'work_amounts', 'namesake_indicators', None, None, None]


def small_program(r, k=None):
    """small problems with a horizon: tasks, a worker / a selection, optional tasks, a few constraints.
    k: position in the sample -- the special patterns are stratified (each gets one program in eight), so that a quick run
    covers each of them several times whatever the seed; without k they are drawn at random"""
    hz = r.choice([5, 6, 7, 8])
    Z, N = terms.Z, terms.N
    pat = PATTERNS[k % len(PATTERNS)] if k is not None else None
    x1, x2, x3, x4 = r.random(), r.random(), r.random(), r.random()      # drawn in any case: the stream does not depend on k
    if pat == 'parking' or (k is None and x1 < 0.25):
        # an optional task and an alternative-worker selection sharing a worker: both park empty busy intervals in the
        # past (at -task_number and at a unique negative integer), both numberings depend on the declaration order
        ops = [('ONewProblem', terms.optZ(r.choice([4, 5])))]
        order = [1, 2, 3]
        r.shuffle(order)
        for i in order:
            ops.append(('ONewTask', N(i), ('KFixed', Z(r.choice([1, 2]))), i == 2 or (i == 3 and r.random() < 0.5), Z(0), None, None, False, Z(1)))
        ops += [('ONewWorker', N(1), Z(1), ('CostConst', Z(0))), ('ONewWorker', N(2), Z(1), ('CostConst', Z(0))),
                ('ONewSelect', N(1), [('RW', ('WPlain', N(1))), ('RW', ('WPlain', N(2)))] if r.random() < 0.5 else
                 [('RW', ('WPlain', N(2))), ('RW', ('WPlain', N(1)))], Z(1), ('PbExact',)),
                ('OAddRequired', N(1), ('ArgS', N(1)), False, Z(0), Z(0)),
                ('OAddRequired', N(2), ('ArgW', ('WPlain', N(1))), False, Z(0), Z(0))]
        if r.random() < 0.5:
            ops.append(('OAddRequired', N(3), ('ArgW', ('WPlain', N(2))), False, Z(0), Z(0)))
        return ops
    if pat == 'cumul_units' or (k is None and x2 < 0.12):
        # a cumulative worker whose units are not interchangeable (productivity not a multiple of the size) and tasks with
        # different work amounts: which task gets which unit must not depend on the order of declaration
        ops = [('ONewProblem', terms.optZ(r.choice([2, 3])))]
        works = [4, 2]
        r.shuffle(works)
        for i, w in enumerate(works, 1):
            ops.append(('ONewTask', N(i), ('KFixed', Z(2)), False, Z(w), None, None, False, Z(1)))
        ops.append(('ONewCumulative', N(1), Z(2), Z(3), ('CostConst', Z(r.choice([0, 5])))))
        for i in (1, 2):
            ops.append(('OAddRequired', N(i), ('ArgC', N(1)), False, Z(0), Z(0)))
        return ops
    if pat == 'shared_workers' or (k is None and x3 < 0.12):
        # two tasks that share two workers, one of them joined dynamically or with delays: what keeps the tasks apart must
        # not depend on which worker was declared first
        ops = [('ONewProblem', terms.optZ(r.choice([5, 6, 8])))]
        for i in (1, 2):
            ops.append(('ONewTask', N(i), ('KFixed', Z(3)), False, Z(0), None, None, False, Z(1)))
        ops += [('ONewWorker', N(1), Z(1), ('CostConst', Z(0))), ('ONewWorker', N(2), Z(1), ('CostConst', Z(0)))]
        dyn = r.random() < 0.5
        for i in (1, 2):
            ops.append(('OAddRequired', N(i), ('ArgW', ('WPlain', N(1))), dyn, Z(0 if dyn else 1), Z(0 if dyn else 1)))
            ops.append(('OAddRequired', N(i), ('ArgW', ('WPlain', N(2))), False, Z(0), Z(0)))
        return ops
    if pat == 'namesake_indicators':
        # two indicators of the same kind on the same worker (same reported name), a bound declared on one of them: which of the
        # two is declared first must not matter
        h = r.choice([4, 5])
        d = r.choice([2, 3])
        ops = [('ONewProblem', terms.optZ(h)),
               ('ONewTask', N(1), ('KFixed', Z(d)), False, Z(0), None, None, False, Z(1)),
               ('ONewTask', N(2), ('KFixed', Z(1)), r.random() < 0.5, Z(0), None, None, False, Z(1)),
               ('ONewWorker', N(1), Z(1), ('CostConst', Z(r.choice([0, 2])))),
               ('OAddRequired', N(1), ('ArgW', ('WPlain', N(1))), False, Z(0), Z(0))]
        kind = r.choice(['IUtilization', 'INbTasks'])
        inds = [('ONewIndicator', N(1), (kind, ('ResW', ('WPlain', N(1)))), None),
                ('ONewIndicator', N(2), (kind, ('ResW', ('WPlain', N(1)))), None)]
        r.shuffle(inds)
        ops += inds
        if kind == 'IUtilization':
            ops.append(('ONewConstraint', N(1), False, ('CIndBounds', N(r.choice([1, 2])), terms.Some(Z(r.choice([50, 80, 100]))), None)))
        else:
            ops.append(('ONewConstraint', N(1), False, ('CIndBounds', N(r.choice([1, 2])), terms.Some(Z(r.choice([1, 2]))), None)))
        return ops
    if pat == 'work_amounts' or (k is None and x4 < 0.2):
        # work amounts: an optional task and a mandatory one, each on its own worker, each with a work amount that decides its
        # duration; the work of one task is its own business, whatever the order of declaration (small horizon: the
        # schedules can be enumerated completely)
        h = r.choice([4, 5])
        ops = [('ONewProblem', terms.optZ(h))]
        order = [1, 2] + ([3] if r.random() < 0.4 else [])
        r.shuffle(order)
        spec = {1: (True, 2), 2: (False, r.choice([3, 4, 5])), 3: (r.random() < 0.5, r.choice([0, 2]))}
        for i in order:
            opt, work = spec[i]
            ops.append(('ONewTask', N(i), ('KVar', Z(1), terms.optZ(h), None), opt, Z(work), None, None, False, Z(1)))
        for w in sorted(order):
            ops.append(('ONewWorker', N(w), Z(1), ('CostConst', Z(0))))
        for i in sorted(order):
            ops.append(('OAddRequired', N(i), ('ArgW', ('WPlain', N(i))), False, Z(0), Z(0)))
        if r.random() < 0.5:
            ops.append(('ONewConstraint', N(1), False, ('CForceSched', N(1), True)))
        return ops
    ops = [('ONewProblem', terms.optZ(hz))]
    nt = r.randint(2, 3)
    for i in range(1, nt + 1):
        x = r.random()
        kind = ('KZero',) if x < 0.12 else (('KFixed', Z(r.choice([1, 2, 3]))) if x < 0.8 else ('KVar', Z(1), terms.optZ(r.choice([2, 3])), None))
        ops.append(('ONewTask', N(i), kind, r.random() < 0.35, Z(0), terms.optZ(r.choice([None, None, 1])), terms.optZ(r.choice([None, None, 5])),
                    r.random() < 0.5, Z(r.choice([1, 2]))))
    nw = r.choice([0, 1, 2, 2])
    for w in range(1, nw + 1):
        ops.append(('ONewWorker', N(w), Z(1), ('CostConst', Z(r.choice([0, 1])))))
    if nw == 2 and r.random() < 0.6:
        ops.append(('ONewSelect', N(1), [('RW', ('WPlain', N(1))), ('RW', ('WPlain', N(2)))], Z(1), (r.choice(['PbMin', 'PbExact']),)))
        ops.append(('OAddRequired', N(r.randint(1, nt)), ('ArgS', N(1)), False, Z(0), Z(0)))
    seen = set()
    for _ in range(r.randint(0, 3) if nw else 0):
        t, w = r.randint(1, nt), r.randint(1, nw)
        if (t, w) in seen:
            continue
        seen.add((t, w))
        ops.append(('OAddRequired', N(t), ('ArgW', ('WPlain', N(w))), False, Z(0), Z(0)))
    if r.random() < 0.35:
        # a cumulative worker next to the plain ones (the report files its units under its name)
        ops.append(('ONewCumulative', N(1), Z(2), Z(1), ('CostConst', Z(0))))
        for t in r.sample(range(1, nt + 1), r.choice([1, 2])):
            ops.append(('OAddRequired', N(t), ('ArgC', N(1)), False, Z(0), Z(0)))
    c = 1
    for _ in range(r.randint(0, 3)):
        k = r.choice(['CPrecedence', 'CStartAfter', 'CEndBefore', 'CDontOverlap', 'CNonDelay', 'CForceSched'])
        a, b = r.randint(1, nt), r.randint(1, nt)
        e = None
        if k == 'CPrecedence' and a != b:
            e = (k, N(a), N(b), Z(r.choice([0, 1])), (r.choice(['Lax', 'Strict']),))
        elif k == 'CStartAfter':
            e = (k, N(a), Z(r.choice([1, 2])), False)
        elif k == 'CEndBefore':
            e = (k, N(a), Z(r.choice([4, 6])), False)
        elif k == 'CDontOverlap' and a != b:
            e = (k, N(a), N(b))
        elif k == 'CNonDelay' and nw:
            w = r.randint(1, nw)
            users = {terms.nval(o[1]) for o in ops if o[0] == 'OAddRequired' and o[2] == ('ArgW', ('WPlain', N(w)))}
            if len(users) >= 2:
                e = (k, ('ResW', ('WPlain', N(w))))
        elif k == 'CForceSched':
            opts = [terms.nval(o[1]) for o in ops if o[0] == 'ONewTask' and o[3]]
            if opts:
                e = (k, N(r.choice(opts)), r.random() < 0.5)
        if e:
            ops.append(('ONewConstraint', N(c), False, e))
            c += 1
    obj = r.choice([None, None, 'OMakespan', 'OFlowtime'])
    if obj:
        ops.append(('ONewObjective', (obj,) if obj == 'OMakespan' else (obj, None), N(60)))
    return ops


def permute_declarations(r, prog):
    """same problem, the declarations of one kind in another order (dependencies respected by keeping the blocks
    in place: only the relative order of the ops of the chosen kind changes)"""
    kinds = [k for k in ('ONewTask', 'ONewWorker', 'ONewConstraint', 'OAddRequired') if sum(1 for o in prog if o[0] == k) >= 2]
    if not kinds:
        return None, None
    k = r.choice(kinds)
    idx = [i for i, o in enumerate(prog) if o[0] == k]
    if k == 'OAddRequired':
        # only the requirements made once every resource exists can be exchanged
        last_res = max([i for i, o in enumerate(prog) if o[0] in ('ONewWorker', 'ONewCumulative', 'ONewSelect')] + [-1])
        first_cons = min([i for i, o in enumerate(prog) if o[0] in ('ONewConstraint', 'ONewIndicator', 'ONewObjective', 'ONewBuffer')] + [len(prog)])
        idx = [i for i in idx if last_res < i < first_cons]
        if len(idx) < 2:
            return None, None
    if k == 'ONewConstraint':
        # constraints may refer to each other only through logical combinations (not generated here)
        pass
    perm = idx[:]
    for _ in range(5):
        r.shuffle(perm)
        if perm != idx:
            break
    if perm == idx:
        return None, None
    out = list(prog)
    for dst, src in zip(idx, perm):
        out[dst] = prog[src]
    return out, k


def canon_text(sexpr, back):
    """textual canonicalisation: every element name replaced by its canonical name (longest names first)"""
    for actual, canonical in back:
        sexpr = sexpr.replace(actual, canonical)
    return sexpr


def observe_variant(prog, naming, enum=True):
    """build + initialize + solve (+ enumerate) one variant -> dict"""
    import z3
    import processscheduler as ps
    import impl
    out = {}
    im = impl.Impl(naming=naming)
    res = im.run(prog)
    out['run'] = res[:2] if res[0] == 'err' else ('ok',)
    if res[0] != 'ok' or im.pb is None:
        return out
    back = []
    for kind, ids in (('T', im.tasks), ('C', im.cumuls), ('S', im.selects), ('K', im.cons), ('B', im.buffers), ('I', im.inds)):
        for i in ids:
            back.append((naming(kind, i), '%s%d' % (kind, i)))
    for key in im.workers:
        if key[0] == 'WPlain':
            back.append((naming('W', key[1]), 'W%d' % key[1]))
    back.sort(key=lambda p: -len(p[0]))
    with contextlib.redirect_stdout(io.StringIO()), warnings.catch_warnings():
        warnings.simplefilter('ignore')
        solver = ps.SchedulingSolver(problem=im.pb, max_time=20)
        im.solver = solver
        try:
            solver.initialize()
        except (ValueError, AssertionError, z3.Z3Exception) as e:
            out['init_error'] = type(e).__name__ + ': ' + str(e)[:120]
            return out
    A = im.rename(list(solver._solver.assertions()))
    tmp = sorted('@@%04d@@' % k for k in range(len(back)))
    # two-step replacement so that a canonical name never gets replaced again
    texts = []
    for a in A:
        sx = a.sexpr()
        for (actual, _), t in zip(back, tmp):
            sx = sx.replace(actual, t)
        for (_, canonical), t in zip(back, tmp):
            sx = sx.replace(t, canonical)
        texts.append(re.sub(r'\s+', ' ', sx))
    out['assertions'] = sorted(texts)
    tasks = [(i, im.tasks[i]) for i in sorted(im.tasks)]

    def proj(sol):
        p = []
        for i, t in tasks:
            ts = sol.tasks[t.name]
            p.append((i, ts.start, ts.end, True) if ts.scheduled else (i, None, None, False))
        return tuple(p)
    schedules = set()
    with contextlib.redirect_stdout(io.StringIO()), warnings.catch_warnings():
        warnings.simplefilter('ignore')
        sol = solver.solve()
        out['verdict'] = 'sat' if sol else 'unsat'
        if sol and im.pb.objectives:
            o = list(im.pb.objectives.values())[0]
            out['optimum'] = solver._model.eval(o._target, model_completion=True).as_long()
        if sol:
            exact = {naming('W', key[1]): 'W%d' % key[1] for key in im.workers if key[0] == 'WPlain'}
            exact.update({naming('C', i): 'C%d' % i for i in im.cumuls})
            out['resource_names'] = sorted(exact.get(n, n) for n in sol.resources)
        if sol and enum and not im.pb.objectives:
            n = 0
            while sol and n < MAX_ENUM:
                schedules.add(proj(sol))
                n += 1
                try:
                    sol = solver.find_another_solution()
                except z3.Z3Exception:
                    break
            out['complete'] = not sol
            out['schedules'] = sorted(map(str, schedules))
    return out


def pollute(r):
    """unrelated problems built and solved earlier in the same process"""
    import processscheduler as ps
    import impl
    for _ in range(r.randint(1, 3)):
        p = small_program(r)
        im = impl.Impl(naming=NAMINGS[r.choice(list(NAMINGS))])
        if im.run(p)[0] == 'ok' and im.pb is not None:
            with contextlib.redirect_stdout(io.StringIO()), warnings.catch_warnings():
                warnings.simplefilter('ignore')
                try:
                    s = ps.SchedulingSolver(problem=im.pb, max_time=10, **r.choice([{}, {'debug': False, 'random_values': True},
                                                                                     {'optimizer': 'optimize'}, {'logics': 'QF_LIA'}]))
                    s.solve()
                except Exception:
                    pass


def observe_case(args):
    idx, prog, seed = args
    out = {'idx': idx, 'error': None, 'diffs': []}
    try:
        r = random.Random(seed * 92821 + idx)
        base = observe_variant(prog, NAMINGS['plain'])
        out['base'] = {k: v for k, v in base.items() if k != 'assertions'}
        out['n_assertions'] = len(base.get('assertions', []))
        if base.get('run') != ('ok',) or 'verdict' not in base:
            out['status'] = 'skipped'
            return out

        def semantic(v, what, cfg=None):
            d = []
            for key in ('verdict', 'optimum', 'resource_names'):
                if key in base and key in v and base[key] != v[key]:
                    d.append((what + ':' + key, base[key], v[key], cfg))
            if base.get('complete') and v.get('complete') and base['schedules'] != v['schedules']:
                only_b = [x for x in base['schedules'] if x not in v['schedules']][:2]
                only_v = [x for x in v['schedules'] if x not in base['schedules']][:2]
                d.append((what + ':schedules', only_b, only_v, cfg))
            if v.get('run') != ('ok',) or 'init_error' in v:
                d.append((what + ':rejected', base.get('run'), (v.get('run'), v.get('init_error')), cfg))
            return d
        # (ii) other names
        for nm in ('words', 'underscored', 'shared_prefix'):
            v = observe_variant(prog, NAMINGS[nm])
            out['diffs'] += semantic(v, 'renaming')
            if 'assertions' in v and v['assertions'] != base['assertions']:
                a = [x for x in base['assertions'] if x not in v['assertions']][:1]
                b = [x for x in v['assertions'] if x not in base['assertions']][:1]
                out['diffs'].append(('renaming:assertions', a, b, nm))
        for nm in FREE_TEXT:
            v = observe_variant(prog, FREE_TEXT[nm])
            out['diffs'] += [(w, a, b, nm) for (w, a, b, _) in semantic(v, 'renaming')]
        for nm in ADVERSARIAL:
            v = observe_variant(prog, ADVERSARIAL[nm])
            out['diffs'] += [(('adversarial_' + w), a, b, nm) for (w, a, b, _) in semantic(v, 'names')]
        # (iii) declaration order: the tasks in reverse order, then two random permutations of one kind of declaration
        tidx = [i for i, o in enumerate(prog) if o[0] == 'ONewTask']
        rev = list(prog)
        for dst, src in zip(tidx, reversed(tidx)):
            rev[dst] = prog[src]
        iidx = [i for i, o in enumerate(prog) if o[0] == 'ONewIndicator']
        revi = list(prog)
        for dst, src in zip(iidx, reversed(iidx)):
            revi[dst] = prog[src]
        for k3 in range(4):
            p2, kind = (rev, 'ONewTask reversed') if k3 == 0 else ((revi, 'ONewIndicator reversed') if k3 == 3 else permute_declarations(r, prog))
            if (k3 == 0 and len(tidx) < 2) or (k3 == 3 and len(iidx) < 2):
                continue
            if p2 is None:
                continue
            v = observe_variant(p2, NAMINGS['plain'])
            out['diffs'] += semantic(v, 'order', kind)
            out.setdefault('orders', []).append(kind)
        # (iv) earlier problems
        pollute(r)
        v = observe_variant(prog, NAMINGS['plain'])
        out['diffs'] += semantic(v, 'earlier_problems')
        if 'assertions' in v and v['assertions'] != base['assertions']:
            a = [x for x in base['assertions'] if x not in v['assertions']][:1]
            b = [x for x in v['assertions'] if x not in base['assertions']][:1]
            out['diffs'].append(('earlier_problems:assertions', a, b, None))
        out['status'] = 'ok'
    except Exception:
        out['error'] = traceback.format_exc()[-1500:]
    return out


def classify(d, prog):
    """known findings: a parking position -task_number of an unscheduled optional task meets the unique negative integer
    of an unselected alternative worker (F23); name-derived z3 constants collide (F27); *_CumulativeWorker_* in a name (F28)"""
    what = d[0]
    has_opt = any(o[0] == 'ONewTask' and o[3] for o in prog)
    has_sel = any(o[0] == 'ONewSelect' for o in prog)
    has_sort = any(o[0] == 'ONewConstraint' and o[3][0] in ('CNonDelay', 'CDistance') for o in prog)
    if what.startswith('order:') and has_opt and has_sel and has_sort:
        return 'order_parking_collision'
    if what.startswith('adversarial_'):
        return 'adversarial_names'
    return what.split(':')[0] + '_changes_' + what.split(':')[1]


def run(ctx, replay=None):
    cfg = CONFIG[ctx.prop]
    quick = ctx.tier == 'quick'
    ok, blog = common.build(ctx)
    if not ok:
        path = common.write_replay(ctx, 'build', {'kind': 'build-failed', 'log': blog})
        common.violation(ctx, path, found_input=False)
        common.write_evidence(ctx, 'proof', {'obligations': 1, 'discharged': 0, 'checker_cmd': './build.sh',
                                             'trusted_base': common.TRUSTED_BASE, 'explanation': 'build failed'}, [])
        return
    po = common.proof_obligations(ctx.prop)
    chk_res = common.coqchk(ctx.prop) if ctx.tier == 'thorough' else None
    if chk_res is not None and not chk_res['ok']:
        path = common.write_replay(ctx, 'coqchk', {'kind': 'coqchk-failed', 'summary': chk_res['summary']})
        common.violation(ctx, path, found_input=False)
    bad = common.hygiene()
    n_obl = len(po['theorems'])
    discharged = n_obl if (po['ok'] and po['all_printed']) else 0
    if not po['ok'] or not po['all_printed'] or bad:
        path = common.write_replay(ctx, 'proof', {'kind': 'proof-obligation', 'file': po['file'], 'log': po['log'], 'hygiene': bad})
        common.violation(ctx, path, found_input=False)
    r = random.Random(ctx.seed)
    if replay is not None:
        progs = [terms.from_jsonable(replay['program'])]
    else:
        progs = [small_program(r, k) for k in range(cfg['n'][0 if quick else 1])]
    t1 = time.time()
    # one fresh process per case: the first observation of a case is made in a process that has built nothing before
    results = common.pmap(observe_case, [(i, p, ctx.seed) for i, p in enumerate(progs)])
    t_impl = time.time() - t1
    findings = common.load_findings(ctx.prop)
    open_kinds = {f['clause_kind']: f for f in findings if f['status'] == 'open'}
    known_hits = collections.Counter()
    stats = collections.Counter()
    viol = []
    for res in results:
        stats['status_' + str(res.get('status'))] += 1
        if res['error']:
            stats['harness_error'] += 1
            viol.append((res['idx'], ('harness-error', res['error'][-500:], None, None), 'harness-error'))
            continue
        if res.get('status') != 'ok':
            continue
        stats['cases'] += 1
        stats['variants'] += 7 + len(res.get('orders', []))
        stats['verdict_' + res['base'].get('verdict', '?')] += 1
        stats['with_complete_enumeration'] += 1 if res['base'].get('complete') else 0
        for k in res.get('orders', []):
            stats['order_' + k] += 1
        for d in res['diffs']:
            kind = classify(d, progs[res['idx']])
            if kind in open_kinds:
                known_hits[kind] += 1
            else:
                viol.append((res['idx'], d, kind))
    for (i, d, kind) in viol[:3]:
        path = common.write_replay(ctx, 'variant', {
            'kind': 'violation', 'property': 'C14', 'what': kind, 'experiment': d[0], 'baseline': str(d[1])[:800], 'variant': str(d[2])[:800],
            'variant_detail': d[3], 'program': terms.dump(progs[i]), 'program_pretty': [terms.to_coq(o) for o in progs[i]],
            'what_it_means': 'the same problem, presented under other names / in another declaration order / after other problems, '
                             'gives another constraint system, verdict, optimum or set of schedules'})
        common.violation(ctx, path, found_input=(kind != 'harness-error'))
    for f in findings:
        if f['status'] == 'open' and known_hits.get(f['clause_kind']):
            common.known_finding(ctx, f['text'])
    live = [res for res in results if res.get('status') == 'ok']
    samples = [{'program': [terms.to_coq(o) for o in progs[res['idx']]], 'baseline': res['base'], 'assertions': res['n_assertions'],
                'orders_tried': res.get('orders', [])} for res in live[::max(1, len(live) // 3)][:3]]
    cov = {
        'obligations': n_obl, 'discharged': discharged,
        'checker_cmd': 'coqc %s %s  (after ./build.sh)' % (' '.join(common.COQFLAGS), po['file']),
        'trusted_base': common.TRUSTED_BASE + [
            'Print Assumptions: ' + '; '.join('%s: %s' % (t, po['assumptions'].get(t, 'NOT PRINTED')) for t in po['theorems'])],
        'coqchk': ({'axioms': chk_res['axioms'], 'ok': chk_res['ok']} if chk_res else 'thorough tier only'), 'theorems': po['theorems'], 'hygiene_hits': bad,
        'evaluations': stats['variants'], 'distinct_nontrivial': len({terms.to_coq(progs[res['idx']]) for res in live}),
        'rule': 'one evaluation = one variant (3 well-behaved namings, 1 free-text naming with punctuation, 2 adversarial namings, up to 2 declaration orders, 1 rerun after unrelated problems) '
                'of a small problem from seed %d, built, initialised, solved and enumerated by the real library; distinct_nontrivial counts distinct base problems '
                'that were accepted and solved' % ctx.seed,
        'samples': samples,
        'traces_validated_against_impl': stats['cases'],
        'tie': dict(stats), 'known_finding_hits': dict(known_hits), 'violations_found': len(viol),
        'timing_s': {'impl': round(t_impl, 1)},
    }
    common.write_evidence(ctx, 'proof', cov, [
        'hidden global state other than the active problem cannot be excluded by a model: it is sampled (fresh process vs. after unrelated problems)',
        'schedule sets are compared only when both enumerations ran to exhaustion (horizon <= 8, at most %d schedules)' % MAX_ENUM])
