"""Engine for C15 (solver options) and C19 (debug diagnosis): theorems about solver_setup (Coq) + correspondence of the
solver set-up under a grid of configurations (O3/O4: solver class, assertions passed to add / assert_and_track,
minimize / maximize calls, objective) + cross-configuration verdict / optimum agreement and validity of every
returned schedule on small problems; for C19 the printed conflict report is re-solved."""
import collections
import contextlib
import io
import itertools
import json
import multiprocessing as mp
import os
import random
import re
import subprocess
import time
import traceback
import warnings

import common
import gen
import modelrun
import terms
import engine_solver

CONFIG = {
    'C15': dict(n=(70, 700), mode='options'),
    'C19': dict(n=(80, 800), mode='debug'),
}

LOGICS = [None, None, None, 'QF_LIA', 'QF_UFLIA', 'QF_IDL', 'QF_ALIA', 'QF_AUFLIA']


def all_configs(r, has_obj, n_extra):
    """a slice of the configuration grid: always the default, both optimisers, debug; plus random others"""
    base = [dict(), dict(debug=True), dict(optimizer='optimize'), dict(parallel=True), dict(random_values=True),
            dict(logics='QF_LIA'), dict(verbosity=1)]
    if has_obj:
        base += [dict(optimizer='optimize', optimize_priority=p) for p in ('lex', 'box', 'weight')]
    extra = []
    for _ in range(n_extra):
        c = {}
        if r.random() < 0.5:
            c['optimizer'] = 'optimize'
            c['optimize_priority'] = r.choice(['pareto', 'lex', 'box', 'weight'])
        if r.random() < 0.3:
            c['debug'] = True
        if r.random() < 0.3:
            c['parallel'] = True
        if r.random() < 0.3:
            c['random_values'] = True
        lg = r.choice(LOGICS)
        if lg:
            c['logics'] = lg
        extra.append(c)
    out = []
    for c in base + extra:
        if c not in out:
            out.append(c)
    return out


# the logics with the theory of arrays, among those SchedulingSolver accepts (a table of the harness: SMT-LIB names)
ARRAY_LOGICS = {'QF_AUFLIA', 'QF_ALIA', 'QF_AUFLIRA', 'QF_AUFNIA', 'QF_AUFNIRA', 'QF_ANIA'}


def coq_cfg(c, ocaml=True):
    opt = 'OptOptimize' if c.get('optimizer') == 'optimize' else 'OptIncremental'
    pr = {'pareto': 'PrPareto', 'lex': 'PrLex', 'box': 'PrBox', 'weight': 'PrWeight'}[c.get('optimize_priority', 'pareto')]
    b = lambda x: 'true' if x else 'false'
    if ocaml:
        return ('{ cf_optimizer = %s; cf_priority = %s; cf_debug = %s; cf_logic = %s; cf_parallel = %s; cf_random = %s; cf_verbosity = n_ %d }'
                % (opt, pr, b(c.get('debug')), ('Some { lg_id = n_ 0; lg_arrays = %s }' % b(c['logics'] in ARRAY_LOGICS)) if c.get('logics') else 'None', b(c.get('parallel')),
                   b(c.get('random_values')), c.get('verbosity', 0)))
    return ('{| cf_optimizer := %s; cf_priority := %s; cf_debug := %s; cf_logic := %s; cf_parallel := %s; cf_random := %s; cf_verbosity := %d%%nat |}'
            % (opt, pr, b(c.get('debug')), ('(Some {| lg_id := 0%%nat; lg_arrays := %s |})' % b(c['logics'] in ARRAY_LOGICS)) if c.get('logics') else 'None', b(c.get('parallel')),
               b(c.get('random_values')), c.get('verbosity', 0)))


def parse_setup(lines):
    rep = {'run': None, 'decls': [], 'asserts': [], 'spec': [], 'kind': None, 'tracked': None, 'dirs': [], 'obj': None}
    for line in lines:
        if line.startswith('RUN '):
            p = line.split()
            rep['run'] = (p[1],) if p[1] == 'ok' else (p[1], int(p[2]))
        elif line.startswith('(declare-'):
            rep['decls'].append(line)
        elif line.startswith('A '):
            _, tag, sx = line.split(' ', 2)
            rep['asserts'].append((tag, sx))
        elif line.startswith('KIND '):
            rep['kind'] = line[5:]
        elif line.startswith('TRACKED '):
            rep['tracked'] = line[8:] == 'true'
        elif line.startswith('DIR '):
            _, d, sx = line.split(' ', 2)
            rep['dirs'].append((d, sx))
        elif line.startswith('OBJ '):
            rep['obj'] = line[4:]
    return rep


def model_setups(ctx, cases):
    """cases: list of (prog, cfg) -> parsed setup reports (extracted model)"""
    d = os.path.join(ctx.work, 'mlcfg')
    os.makedirs(d, exist_ok=True)
    with open(os.path.join(d, 'cases.ml'), 'w') as f:
        f.write('open Model\nopen Helpers\n')
        for i, (prog, c) in enumerate(cases):
            f.write('let p%d = %s\nlet c%d = %s\n' % (i, terms.to_ocaml(prog), i, coq_cfg(c)))
        f.write('let cases = [' + '; '.join('(p%d, c%d)' % (i, i) for i in range(len(cases))) + ']\n')
    with open(os.path.join(d, 'main.ml'), 'w') as f:
        f.write('let str (l : char list) : string = String.of_seq (List.to_seq l)\n'
                'let () = List.iteri (fun i (p, c) -> print_string ("CASE " ^ string_of_int i ^ "\\n");\n'
                '  List.iter (fun l -> print_string (str l); print_char \'\\n\') (Model.setup_report c p)) Cases.cases\n')
    cmd = ['ocamlfind', 'ocamlopt', '-w', '-a', '-I', modelrun.GEN, os.path.join(modelrun.GEN, 'model.cmx'),
           os.path.join(modelrun.GEN, 'helpers.cmx'), 'cases.ml', 'main.ml', '-o', 'run']
    r = subprocess.run(['bash', '-c', 'ulimit -s unlimited 2>/dev/null; exec "$@"', 'sh'] + cmd, cwd=d, capture_output=True, text=True, timeout=900)
    if r.returncode != 0:
        raise RuntimeError('ocaml build failed: ' + r.stderr[:2000])
    r = subprocess.run(['bash', '-c', 'ulimit -s unlimited 2>/dev/null; exec ./run'], cwd=d, capture_output=True, text=True, timeout=900)
    reps, cur = [], None
    for line in r.stdout.split('\n'):
        if line.startswith('CASE '):
            cur = []
            reps.append(cur)
        elif line and cur is not None:
            cur.append(line)
    return [parse_setup(x) for x in reps]


def kernel_setups(ctx, cases):
    vf = os.path.join(ctx.work, 'kcfg.v')
    with open(vf, 'w') as f:
        f.write('From Coq Require Import ZArith List Bool String.\nFrom PS.model Require Import Smt Enc Ind Prog Solution Driver.\n'
                'Import ListNotations.\nOpen Scope string_scope.\n')
        for i, (prog, c) in enumerate(cases):
            f.write('Definition p%d : list op := %s.\n' % (i, terms.to_coq(prog)))
            f.write('Eval vm_compute in ("CASE" :: setup_report %s p%d).\n' % (coq_cfg(c, ocaml=False), i))
    r = subprocess.run(['coqc'] + common.COQFLAGS + [vf], cwd=common.COQ, capture_output=True, text=True, timeout=1800)
    if r.returncode != 0:
        raise RuntimeError('coqc failed: ' + (r.stderr or r.stdout)[:2000])
    reps = []
    for ch in r.stdout.split(': list string'):
        if '= [' not in ch:
            continue
        reps.append(parse_setup([l for l in modelrun.coq_string_lines(ch) if l != 'CASE']))
    return reps


# ----------------------------------------------------------------------------------------------
def small_opt_program(r):
    prog = engine_solver.small_program(r)
    objs = []
    x = r.random()
    if x < 0.45:
        objs = [r.choice(['OMakespan', 'OFlowtime', 'OPriorities', 'OGreatestStart', 'OStartLatest', 'OStartEarliest', 'ORawW'])]
    elif x < 0.7:
        objs = r.sample(['OMakespan', 'OFlowtime', 'OPriorities', 'OGreatestStart', 'ORawW'], 2)   # same direction (minimise)
    iid = 50
    if not objs and r.random() < 0.6 and not prog[1][3]:      # task 1 mandatory: the declared bounds are true bounds
        # a user indicator with declared bounds; with start = 0 (the usual first model) it sits on its upper bound
        hz = terms.zval(prog[0][1][1])
        k1 = prog[1][2]
        d1 = terms.zval(k1[1]) if k1[0] == 'KFixed' else (0 if k1[0] == 'KZero' else 1)
        prog.append(('ONewIndicator', terms.N(40), ('IExpr', ('TSub', ('TC', terms.Z(hz)), ('TV', ('VEnd', terms.N(1))))),
                     terms.Some(terms.P(terms.Z(0), terms.Z(hz - d1)))))
        prog.append(('ONewObjective', (r.choice(['OMinIndicator', 'OMinIndicator', 'OMaxIndicator']), terms.N(40), terms.Z(1)), terms.N(41)))
    for o in objs:
        if o == 'ORawW':
            # the generic Objective on an expression, with a weight
            ob = ('ORaw', terms.N(iid), ('TV', ('VEnd', terms.N(1))), terms.Z(r.choice([2, 3] if len(objs) > 1 else [2, 3, -1, -2, 0])), False)
        else:
            ob = (o,) if o in ('OMakespan', 'OPriorities', 'OStartEarliest') else (o, None)
        prog.append(('ONewObjective', ob, terms.N(iid)))
        iid += 1
    return prog


def conflicting_program(r):
    """a small program made infeasible by a few of its constraints, with irrelevant ones around them"""
    prog = engine_solver.small_program(r, with_opt=False)
    # keep the horizon, drop generated constraints that may already conflict in uncontrolled ways
    prog = [o for o in prog if o[0] != 'ONewConstraint']
    nt = sum(1 for o in prog if o[0] == 'ONewTask')
    c = 1
    cons = []
    t = r.randint(1, nt)
    kind = r.choice(['two_starts', 'window', 'cycle', 'optional_forced', 'negated', 'exclusive', 'workload', 'unavailable'] if any(o[0] == 'OAddRequired' for o in prog)
                    else ['two_starts', 'window', 'cycle', 'optional_forced', 'negated', 'exclusive'])
    Z, N, P = terms.Z, terms.N, terms.P
    if kind == 'two_starts':
        cons += [('CStartAt', N(t), Z(0)), ('CStartAt', N(t), Z(1))]
    elif kind == 'optional_forced':
        # the conflict goes through an optional constraint that a force-apply rule obliges the solver to apply
        cons += [('CStartAt', N(t), Z(0))]
    elif kind == 'window':
        cons += [('CStartAfter', N(t), Z(4), False), ('CEndBefore', N(t), Z(3), False)]
    elif kind == 'cycle':
        u = t % nt + 1
        if u == t:
            cons += [('CStartAt', N(t), Z(0)), ('CStartAt', N(t), Z(2))]
        else:
            cons += [('CPrecedence', N(t), N(u), Z(1), ('Lax',)), ('CPrecedence', N(u), N(t), Z(0), ('Lax',))]
    elif kind in ('workload', 'unavailable'):
        ws = [o for o in prog if o[0] == 'OAddRequired']
        o = r.choice(ws)
        res = ('ResW', o[2][1])
        tt = o[1]
        if kind == 'workload':
            cons += [('CWorkLoad', res, [P(P(Z(0), Z(4)), Z(0)), P(P(Z(4), Z(20)), Z(0))], ('PbMax',)), ('CStartAt', tt, Z(1))]
        else:
            cons += [('CUnavailable', res, [P(Z(0), Z(3)), P(Z(3), Z(20))]), ('CStartAfter', tt, Z(0), False)]
    # irrelevant constraints
    for _ in range(r.randint(0, 3)):
        a = r.randint(1, nt)
        cons.append(r.choice([('CEndBefore', N(a), Z(30), False), ('CStartAfter', N(a), Z(0), False),
                              ('CExpr', ('FLe', ('TV', ('VStart', N(a))), ('TC', Z(50))))]))
    r.shuffle(cons)
    for e in cons:
        prog.append(('ONewConstraint', N(c), False, e))
        c += 1
    if kind in ('negated', 'exclusive'):
        # the conflict goes through a logical combination whose operands are constraints: the report has to name the
        # combination (the operands are not imposed on their own)
        prog.append(('ONewConstraint', N(c), False, ('CStartAt', N(t), Z(0))))        # operand (becomes flagged)
        if kind == 'negated':
            prog.append(('ONewConstraint', N(c + 1), False, ('CNot', ('OpC', N(c)))))
            prog.append(('ONewConstraint', N(c + 2), False, ('CStartAt', N(t), Z(0))))
            c += 3
        else:
            prog.append(('ONewConstraint', N(c + 1), False, ('CStartAfter', N(t), Z(0), False)))   # second operand, always true
            prog.append(('ONewConstraint', N(c + 2), False, ('CXor', ('OpC', N(c)), ('OpC', N(c + 1)))))
            prog.append(('ONewConstraint', N(c + 3), False, ('CStartAt', N(t), Z(0))))
            c += 4
    if kind == 'optional_forced':
        prog.append(('ONewConstraint', N(c), True, ('CStartAt', N(t), Z(1))))
        prog.append(('ONewConstraint', N(c + 1), False, ('CForceApplyN', [N(c)], Z(1), (r.choice(['PbExact', 'PbMin']),))))
        c += 2
    if r.random() < 0.3:
        prog = [o for o in prog]   # feasible variant: drop one of the conflicting constraints later in run_debug
    return prog


def observe_setup(args):
    """one (program, configuration): set-up observables + solve verdict"""
    idx, prog, cfgs, rep_default_asserts, seed, do_solve = args
    import z3
    import solverproxy as sp
    sp.install()
    import processscheduler as ps
    import impl
    import compare
    out = {'idx': idx, 'error': None, 'per_cfg': []}
    try:
        # every third case: a constraint that carries the name of an optional task's scheduled flag (a legitimate name: the
        # library keeps constraint names and z3 constants apart; an option must not make them meet)
        naming = impl.default_naming
        opt_ids = [o[1][1] for o in prog if o[0] == 'ONewTask' and o[3] is True]
        con_ids = [o[1][1] for o in prog if o[0] == 'ONewConstraint']
        if idx % 3 == 0 and opt_ids and con_ids:
            tgt = 'T%d_scheduled' % opt_ids[0]
            naming = (lambda k, i, _c=con_ids[0], _t=tgt: _t if (k == 'K' and i == _c) else impl.default_naming(k, i))
        out['naming'] = 'flag-named constraint' if naming is not impl.default_naming else 'default'
        out['has_buffer'] = any(o[0] == 'ONewBuffer' for o in prog)
        for c in cfgs:
            im = impl.Impl(naming=naming)
            res = im.run(prog)
            if res[0] != 'ok' or im.pb is None:
                out['status'] = 'rejected'
                return out
            sp.reset()
            rec = {'cfg': c}
            try:
                with contextlib.redirect_stdout(io.StringIO()), warnings.catch_warnings():
                    warnings.simplefilter('ignore')
                    solver = ps.SchedulingSolver(problem=im.pb, max_time=15, **c)
                    im.solver = solver
                    solver.initialize()
                s = solver._solver
                rec['kind'] = ('optimize ' + c.get('optimize_priority', 'pareto')) if isinstance(s, z3.Optimize) else \
                              ('solverfor' if any(ev[0] == 'solverfor' for ev in sp.LOG) else 'solver')
                tracked = [ev for ev in sp.LOG if ev[0] == 'track']
                added = [ev[1] for ev in sp.LOG if ev[0] == 'add']
                rec['tracked'] = bool(tracked)
                A = [ev[1] for ev in tracked] if tracked else added
                im._pairs = None
                A = im.rename(A)
                rec['n_asserts'] = len(A)
                rec['A'] = [a.sexpr() for a in A]
                rec['decl_names'] = None
                rec['dirs'] = [(ev[0][:3], im.rename([ev[1]])[0].sexpr()) for ev in sp.LOG if ev[0] in ('minimize', 'maximize')]
                o = solver._objective
                if o is None:
                    rec['obj'] = 'none'
                else:
                    b = o._bounds
                    rec['obj'] = '%s %s %s' % ('min' if o.kind == 'minimize' else 'max', im.rename([o._target + 0])[0].arg(0).sexpr()
                                               if False else im.rename([o._target])[0].sexpr(),
                                               'none' if b is None else '%s %s' % (engine_solver.show_z(b[0]), engine_solver.show_z(b[1])))
                # the debug map: tracked literal -> constraint name
                if tracked:
                    m = solver._map_boolrefs_to_constraints
                    back_names = {naming('K', ci): 'K%d' % ci for ci in im.cons}
                    rec['map'] = [back_names.get(nm0, nm0) for nm0 in (m.get(ev[2]) for ev in tracked)]
                if do_solve:
                    with contextlib.redirect_stdout(io.StringIO()), warnings.catch_warnings():
                        warnings.simplefilter('ignore')
                        sol = solver.solve()
                    checks = [ev for ev in sp.LOG if ev[0] == 'check']
                    last = checks[-1][2] if checks else None
                    rec['answers'] = [ev[2] for ev in checks]
                    # the same object asked again (the options must not leave anything behind)
                    if sol and c.get('optimize_priority', 'pareto') != 'pareto' or (sol and not isinstance(s, z3.Optimize)):
                        mdl1 = solver._model
                        with contextlib.redirect_stdout(io.StringIO()), warnings.catch_warnings():
                            warnings.simplefilter('ignore')
                            sol2 = solver.solve()
                        checks2 = [ev for ev in sp.LOG if ev[0] == 'check']
                        rec['second'] = 'sat' if sol2 else ('unknown' if checks2 and checks2[-1][2] == 'unknown' else 'unsat')
                        solver._model = mdl1
                    if sol:
                        mdl = solver._model
                        vals_i, vals_b = {}, {}
                        for cst in impl.consts_in_order(im.rename(list(s.assertions()))):
                            pass
                        consts = impl.consts_in_order(list(s.assertions()))
                        ren = {a.get_id(): b2 for a, b2 in (im._pairs or [])}
                        for cst in consts:
                            tgt = ren.get(cst.get_id(), cst)
                            v = mdl.eval(cst, model_completion=True)
                            if z3.is_int_value(v):
                                vals_i[tgt.decl().name()] = v.as_long()
                            elif z3.is_true(v) or z3.is_false(v):
                                vals_b[tgt.decl().name()] = bool(z3.is_true(v))
                        rec['verdict'] = 'sat'
                        rec['ivals'], rec['bvals'] = vals_i, vals_b
                        single = len(im.pb.objectives) >= 1 and solver._objective is not None
                        if len(im.pb.objectives) == 1:
                            tgt = list(im.pb.objectives.values())[0]._target
                            rec['objective_value'] = mdl.eval(tgt, model_completion=True).as_long()
                            # finished = the incremental loop ended on unsat, or z3.Optimize answered sat
                            # no max_iter and a generous max_time: the loop ends on unsat or on a stop at the declared bound,
                            # in both cases the solver announces an optimum (the generated bounds are true bounds)
                            rec['finished'] = (last in ('unsat', 'sat')) if not isinstance(s, z3.Optimize) else True
                        elif len(im.pb.objectives) > 1:
                            ws = sum(o2.weight * mdl.eval(o2._target, model_completion=True).as_long() for o2 in im.pb.objectives.values())
                            rec['weighted_value'] = ws
                            rec['finished'] = (last == 'unsat') if not isinstance(s, z3.Optimize) else True
                        # z3.Optimize is not reliable by itself (finding F47): the problem is rebuilt and solved twice more, a value
                        # counts as the configuration's answer when it shows every time
                        if isinstance(s, z3.Optimize) and ('objective_value' in rec or 'weighted_value' in rec):
                            key = 'objective_value' if 'objective_value' in rec else 'weighted_value'
                            reps_ = [rec[key]]
                            for _ in range(2):
                                try:
                                    im2 = impl.Impl(naming=naming)
                                    if im2.run(prog)[0] != 'ok':
                                        break
                                    with contextlib.redirect_stdout(io.StringIO()), warnings.catch_warnings():
                                        warnings.simplefilter('ignore')
                                        sv2 = ps.SchedulingSolver(problem=im2.pb, max_time=15, **c)
                                        sol_b = sv2.solve()
                                    if not sol_b:
                                        reps_.append(None)
                                    elif key == 'objective_value':
                                        reps_.append(sv2._model.eval(list(im2.pb.objectives.values())[0]._target, model_completion=True).as_long())
                                    else:
                                        reps_.append(sum(o2.weight * sv2._model.eval(o2._target, model_completion=True).as_long()
                                                         for o2 in im2.pb.objectives.values()))
                                except Exception:
                                    break
                            rec['repeats'] = reps_
                    else:
                        rec['verdict'] = 'unsat' if last == 'unsat' and len(checks) == 1 else ('unknown' if last == 'unknown' else
                                                                                              ('unsat' if last == 'unsat' else 'none'))
            except (z3.Z3Exception, ValueError, AssertionError, AttributeError, TypeError) as e:
                rec['raised'] = type(e).__name__ + ': ' + str(e)[:150]
            out['per_cfg'].append(rec)
        out['status'] = 'ok'
    except Exception:
        out['error'] = traceback.format_exc()[-1500:]
    return out


# ----------------------------------------------------------------------------------------------
def run(ctx, replay=None):
    cfg = CONFIG[ctx.prop]
    quick = ctx.tier == 'quick'
    ok, blog = common.build(ctx)
    if not ok:
        path = common.write_replay(ctx, 'build', {'kind': 'build-failed', 'log': blog})
        common.violation(ctx, path, found_input=False)
        common.write_evidence(ctx, 'proof', {'obligations': 1, 'discharged': 0, 'checker_cmd': './build.sh',
                                             'trusted_base': common.TRUSTED_BASE, 'explanation': 'build failed'}, [])
        return
    po = common.proof_obligations(ctx.prop)
    chk_res = common.coqchk(ctx.prop) if ctx.tier == 'thorough' else None
    if chk_res is not None and not chk_res['ok']:
        path = common.write_replay(ctx, 'coqchk', {'kind': 'coqchk-failed', 'summary': chk_res['summary']})
        common.violation(ctx, path, found_input=False)
    bad = common.hygiene()
    n_obl = len(po['theorems'])
    discharged = n_obl if (po['ok'] and po['all_printed']) else 0
    if not po['ok'] or not po['all_printed'] or bad:
        path = common.write_replay(ctx, 'proof', {'kind': 'proof-obligation', 'file': po['file'], 'log': po['log'], 'hygiene': bad})
        common.violation(ctx, path, found_input=False)
    r = random.Random(ctx.seed)
    n = cfg['n'][0 if quick else 1]
    if replay is not None:
        progs = [terms.from_jsonable(replay['program'])]
        cfgsets = [replay.get('configs') or all_configs(r, True, 2)]
    elif cfg['mode'] == 'options':
        progs = [small_opt_program(r) for _ in range(n * 2 // 3)]
        progs += gen.generate(ctx.seed * 1000 + 77, n - len(progs), 'objectives', 'quick')
        cfgsets = [all_configs(r, any(o[0] == 'ONewObjective' for o in p), 2) for p in progs]
        # the corpus (witnesses of the listed findings, with their configurations) runs first
        abort_flags = [False] * len(progs)
        cdir = os.path.join(common.VERIF, 'corpus', ctx.prop)
        if os.path.isdir(cdir):
            for fn in sorted(os.listdir(cdir), reverse=True):
                if fn.endswith('.json'):
                    j = json.load(open(os.path.join(cdir, fn)))
                    progs.insert(0, terms.from_jsonable(j['program']))
                    cfgsets.insert(0, j['configs'])
                    abort_flags.insert(0, 'F48' in fn)
    else:
        progs = [conflicting_program(r) for _ in range(n * 3 // 4)] + [engine_solver.small_program(r) for _ in range(n - n * 3 // 4)]
        cdir = os.path.join(common.VERIF, 'corpus', ctx.prop)
        if os.path.isdir(cdir):
            for fn in sorted(os.listdir(cdir), reverse=True):
                if fn.endswith('.json'):
                    progs.insert(0, terms.from_jsonable(json.load(open(os.path.join(cdir, fn)))['program']))
        cfgsets = [[dict(debug=True), dict()] for _ in progs]
    small = [i < (n * 2 // 3) or cfg['mode'] == 'debug' or replay is not None for i in range(len(progs))]
    ctx._abort_cases = [i for i, f_ in enumerate(locals().get('abort_flags', [])) if f_]
    t1 = time.time()
    jobs = [(i, p, cfgsets[i], None, ctx.seed, small[i]) for i, p in enumerate(progs)]
    obs = observe_setup if cfg['mode'] == 'options' else observe_debug
    # the corpus witness of F48 kills its worker process: it runs in a pool of its own, so that the other cases are not rerun
    abort_idx = set(getattr(ctx, '_abort_cases', []))
    results = [None] * len(jobs)
    for j in [j for j in jobs if j[0] in abort_idx]:
        results[j[0]] = common.pmap(obs, [j], procs=1)[0]
    rest = [j for j in jobs if j[0] not in abort_idx]
    for j, res_ in zip(rest, common.pmap(obs, rest)):
        results[j[0]] = res_
    # a case on which the worker process died: run its configurations one by one to see which of them kills the process.
    # z3 aborts (ASSERTION VIOLATION in ast.cpp) on some infeasible problems when an unsat core is asked from z3.Optimize, i.e.
    # with debug=True and optimizer='optimize' (finding F48): those configurations are set aside, the others are used
    z3_aborts = 0
    for ri, res in enumerate(results):
        if res.get('crashed'):
            i = res['idx']
            singles = common.pmap(obs, [(i, progs[i], [c], None, ctx.seed, small[i]) for c in cfgsets[i]])
            dead = [c for c, sres in zip(cfgsets[i], singles) if sres.get('crashed')]
            shape = lambda c: bool(c.get('debug')) and c.get('optimizer') == 'optimize'
            # (the abort depends on what the process did before: it does not always show again when the configurations run alone)
            if all(shape(c) for c in dead) and any(shape(c) for c in cfgsets[i]):
                merged = None
                for c, sres in zip(cfgsets[i], singles):
                    if sres.get('crashed'):
                        continue
                    if merged is None:
                        merged = sres
                    else:
                        merged['per_cfg'] += sres.get('per_cfg', [])
                if merged is not None:
                    results[ri] = merged
                    z3_aborts += max(1, len(dead))
    t_impl = time.time() - t1
    # model side: one set-up report per (program, configuration)
    flat = []
    for res in results:
        if res.get('status') == 'ok':
            for k, rec in enumerate(res['per_cfg']):
                flat.append((res['idx'], k, rec))
    cases = [(progs[i], rec['cfg']) for i, k, rec in flat]
    reps = []
    SH = 200
    for si in range(0, len(cases), SH):
        ctx2 = collections.namedtuple('C', 'work')(os.path.join(ctx.work, 'sh%d' % si))
        reps += model_setups(ctx2, cases[si:si + SH])
    kslice = list(range(0, len(cases), max(1, len(cases) // 15)))[:15]
    kreps = kernel_setups(ctx, [cases[i] for i in kslice]) if cases else []
    kernel_mismatch = [i for i, kr in zip(kslice, kreps) if kr != reps[i]]
    if kernel_mismatch:
        path = common.write_replay(ctx, 'extraction', {'kind': 'extraction-vs-kernel', 'cases': kernel_mismatch[:3]})
        common.violation(ctx, path, found_input=False)
    cmp = common.pmap(compare_case, [(ctx.prop, progs[i], rec, rep) for (i, k, rec), rep in zip(flat, reps)])
    for d_ in cmp:
        if d_.get('crashed'):
            d_['diffs'] = [('harness-error', d_['error'])]
    stats = collections.Counter()
    breaks, viol = [], []
    for (i, k, rec), d in zip(flat, cmp):
        stats['setups'] += 1
        stats['cfg_' + json.dumps(rec['cfg'], sort_keys=True)] += 0
        if not d['diffs']:
            stats['setups_agree'] += 1
        else:
            breaks.append((i, rec['cfg'], d['diffs'][:3]))
        for v in d['violations']:
            viol.append((i, rec['cfg'], v))
    for res in results:
        if res['error']:
            stats['harness_error'] += 1
            breaks.append((res['idx'], None, [('harness-error', res['error'][-500:])]))
        stats['status_' + str(res.get('status'))] += 1
    # cross-configuration agreement
    findings = common.load_findings(ctx.prop)
    open_kinds = {f['clause_kind']: f for f in findings if f['status'] == 'open'}
    known_hits = collections.Counter()
    if z3_aborts:
        if 'z3-abort-debug-optimize' in open_kinds:
            known_hits['z3-abort-debug-optimize'] += z3_aborts
        else:
            viol.append((0, None, ('z3-abort-debug-optimize', None, 'the process is killed by z3 under debug=True, optimizer="optimize"')))
    for res in results:
        if res.get('status') != 'ok':
            continue
        for v in cross_config(ctx.prop, res):
            if v[0] in open_kinds:
                known_hits[v[0]] += 1
            else:
                viol.append((res['idx'], v[1], v))
        stats['solved_cfgs'] += sum(1 for rec in res['per_cfg'] if rec.get('verdict'))
        stats['diagnoses_checked'] += sum(1 for rec in res['per_cfg'] if 'reported' in rec)
        stats['constraints_reported'] += sum(len(rec.get('reported', [])) for rec in res['per_cfg'])
    kept = []
    for (i, c, v) in viol:
        if v[0] in open_kinds:
            known_hits[v[0]] += 1
        else:
            kept.append((i, c, v))
    for (i, c, v) in kept[:3]:
        path = common.write_replay(ctx, 'cfg', {
            'kind': 'violation', 'property': ctx.prop, 'what': v[0], 'detail': [str(x)[:600] for x in v[1:]], 'config': c,
            'program': terms.dump(progs[i]), 'program_pretty': [terms.to_coq(o) for o in progs[i]], 'configs': cfgsets[i]})
        common.violation(ctx, path)
    if breaks and not kept:
        i, c, d = breaks[0]
        path = common.write_replay(ctx, 'setup', {
            'kind': 'correspondence-broken', 'observable': 'solver set-up under a configuration (O3/O4)', 'config': c,
            'detail': [str(x)[:600] for x in d], 'program': terms.dump(progs[i]), 'program_pretty': [terms.to_coq(o) for o in progs[i]],
            'configs': cfgsets[i], 'count': len(breaks)})
        common.violation(ctx, path, found_input=False)
    for f in findings:
        if f['status'] == 'open' and known_hits.get(f['clause_kind']):
            common.known_finding(ctx, f['text'])
    distinct = len({(terms.to_coq(progs[i]), json.dumps(rec['cfg'], sort_keys=True)) for i, k, rec in flat})
    samples = [{'program': [terms.to_coq(o) for o in progs[i]], 'config': rec['cfg'], 'solver_class': rec.get('kind'),
                'assertions': rec.get('n_asserts'), 'verdict': rec.get('verdict')} for i, k, rec in flat[::max(1, len(flat) // 3)][:3]]
    cov = {
        'obligations': n_obl, 'discharged': discharged,
        'checker_cmd': 'coqc %s %s  (after ./build.sh)' % (' '.join(common.COQFLAGS), po['file']),
        'trusted_base': common.TRUSTED_BASE + [
            'z3 contract (sat answers come with a model, unsat answers / cores are truthful): hypotheses of the theorems, not axioms; '
            "z3's own soundness under each option and logic is not modelled",
            'recording subclasses of z3.Solver/z3.Optimize/z3.SolverFor (harness/solverproxy.py)',
            'Print Assumptions: ' + '; '.join('%s: %s' % (t, po['assumptions'].get(t, 'NOT PRINTED')) for t in po['theorems'])],
        'coqchk': ({'axioms': chk_res['axioms'], 'ok': chk_res['ok']} if chk_res else 'thorough tier only'), 'theorems': po['theorems'], 'hygiene_hits': bad,
        'evaluations': len(flat), 'distinct_nontrivial': distinct,
        'rule': 'one evaluation = one (program, solver configuration) pair; programs from seed %d (small optimisation problems + the objectives profile for C15, '
                'deliberately conflicting problems for C19); distinct by (program text, configuration)' % ctx.seed,
        'samples': samples,
        'traces_validated_against_impl': stats['setups_agree'],
        'tie': {k: v for k, v in stats.items() if not k.startswith('cfg_')},
        'configurations': sorted(k[4:] for k in stats if k.startswith('cfg_')),
        'kernel_route_crosscheck': {'cases': len(kslice), 'mismatches': len(kernel_mismatch)},
        'known_finding_hits': dict(known_hits), 'violations_found': len(kept),
        'timing_s': {'impl': round(t_impl, 1)},
    }
    common.write_evidence(ctx, 'proof', cov, [
        'the theorems are about the Coq model of the solver set-up; it is tied to /repo on every sampled (program, configuration) pair',
        'definite answers only: z3 unknown / exceptions inside a logic fragment are "no definite answer"'])


def compare_case(args):
    """set-up of one (program, configuration): implementation vs model"""
    prop, prog, rec, rep = args
    import z3
    out = {'diffs': [], 'violations': []}
    try:
        if 'raised' in rec:
            out['diffs'].append(('raised', rec['raised']))
            return out
        if rep['run'] != ('ok',):
            out['diffs'].append(('model-run', rep['run']))
            return out
        if rec['kind'] != rep['kind']:
            out['diffs'].append(('solver-class', rec['kind'], rep['kind']))
        if rec['tracked'] != rep['tracked']:
            out['diffs'].append(('tracked', rec['tracked'], rep['tracked']))
        decls = rep['decls']
        known = set(re.findall(r'declare-(?:const|fun) (\S+)', '\n'.join(decls)))
        # declarations for names only the implementation uses
        extra = set()
        for sx in rec['A'] + [s for _, s in rec['dirs']]:
            for tok in re.findall(r'[A-Za-z_][A-Za-z0-9_!.]*', sx):
                extra.add(tok)
        text_m = '\n'.join(decls) + '\n' + '\n'.join('(assert %s)' % s for _, s in rep['asserts'])
        mvec = list(z3.parse_smt2_string(text_m)) if rep['asserts'] else []
        # parse the implementation's formulas in the same name space: reuse the model's declarations and
        # declare whatever else occurs as Int / Bool by trial
        ivec = parse_with(decls, rec['A'], z3)
        if ivec is None:
            out['diffs'].append(('impl-parse', rec['A'][:1]))
            return out
        s = z3.Solver()
        s.set('timeout', 8000)
        for a in ivec:
            s.add(a)
        for (tag, _), m in zip(rep['asserts'], mvec):
            s.push()
            s.add(z3.Not(m))
            if s.check() == z3.sat:
                out['diffs'].append(('impl=>model', tag, m.sexpr()[:200]))
                s.pop()
                break
            s.pop()
        s2 = z3.Solver()
        s2.set('timeout', 8000)
        for m in mvec:
            s2.add(m)
        for k, a in enumerate(ivec):
            s2.push()
            s2.add(z3.Not(a))
            if s2.check() == z3.sat:
                out['diffs'].append(('model=>impl', k, a.sexpr()[:200]))
                s2.pop()
                break
            s2.pop()
        # directives and objective
        md = [(d, z3.simplify(x).sexpr()) for (d, _), x in zip(rep['dirs'], parse_terms(decls, [s for _, s in rep['dirs']], z3) or [])]
        idd = [(d, z3.simplify(x).sexpr()) for (d, _), x in zip(rec['dirs'], parse_terms(decls, [s for _, s in rec['dirs']], z3) or [])]
        if md != idd:
            out['diffs'].append(('directives', idd, md))
        mo = rep['obj']
        io_ = rec['obj']
        if (mo == 'none') != (io_ == 'none'):
            out['diffs'].append(('objective', io_, mo))
        elif mo != 'none':
            mp_, ip_ = mo.split(' '), io_.split(' ')
            if mp_[0] != ip_[0]:
                out['diffs'].append(('objective-direction', io_, mo))
            mb = mo.rsplit(' ', 2)[-2:] if not mo.endswith('none') else ['none']
            ib = io_.rsplit(' ', 2)[-2:] if not io_.endswith('none') else ['none']
            if mb != ib:
                out['diffs'].append(('objective-bounds', io_, mo))
        # C19: the debug map must name exactly the owner of each constraint assertion
        if rec.get('map') is not None:
            by_name = collections.defaultdict(list)
            for nm, a in zip(rec['map'], ivec):
                by_name[nm].append(a)
            by_tag = collections.defaultdict(list)
            for (tag, _), m in zip(rep['asserts'], mvec):
                by_tag[('K' + tag[5:]) if tag.startswith('cons:') else None].append(m)
            for nm in set(by_name) | set(by_tag):
                a, b = z3.And(by_name.get(nm, [])) if by_name.get(nm) else z3.BoolVal(True), \
                       z3.And(by_tag.get(nm, [])) if by_tag.get(nm) else z3.BoolVal(True)
                sx = z3.Solver()
                sx.set('timeout', 8000)
                sx.add(a != b)
                if sx.check() == z3.sat:
                    out['diffs'].append(('debug-map', nm, a.sexpr()[:150], b.sexpr()[:150]))
                    break
        # validity of the returned schedule: it satisfies the configuration-independent assertion set of the model
        if rec.get('verdict') == 'sat':
            base = [(tag, m) for (tag, _), m in zip(rep['asserts'], mvec) if tag != 'obj']
            sub = []
            for name, v in rec['ivals'].items():
                sub.append((z3.Int(name), z3.IntVal(v)))
            for name, v in rec['bvals'].items():
                sub.append((z3.Bool(name), z3.BoolVal(v)))
            residue = []
            for tag, m in base:
                if z3.is_quantifier(m):
                    residue.append(m)
                    continue
                val = z3.simplify(z3.substitute(m, *sub))
                if z3.is_false(val):
                    out['violations'].append(('invalid-schedule-returned', tag, m.sexpr()[:200]))
                    break
                if not z3.is_true(val):
                    residue.append(val)
            else:
                # what the integer and boolean values do not decide (arrays, functions, quantified assertions of the buffers):
                # the values returned must extend to a model of the rest, for a plain solver
                if residue:
                    sv = z3.Solver()
                    sv.set('timeout', 8000)
                    for m in residue:
                        sv.add(m)
                    for a, b in sub:
                        sv.add(a == b)
                    if sv.check() == z3.unsat:
                        out['violations'].append(('invalid-schedule-returned', 'values do not extend to the array / function part',
                                                  '; '.join(x.sexpr()[:80] for x in residue[:3])))
    except Exception:
        out['diffs'].append(('compare-error', traceback.format_exc()[-600:]))
    return out


def parse_with(decls, sexprs, z3):
    """parse s-expressions printed by z3 in the name space of the model's declarations (+ Int/Bool guesses)"""
    if not sexprs:
        return []
    known = set(re.findall(r'declare-(?:const|fun) (\S+)', '\n'.join(decls)))
    extra_i, extra_b = set(), set()
    for _ in range(40):
        d = list(decls) + ['(declare-const %s Int)' % n for n in sorted(extra_i)] + ['(declare-const %s Bool)' % n for n in sorted(extra_b)]
        try:
            vec = z3.parse_smt2_string('\n'.join(d) + '\n' + '\n'.join('(assert %s)' % s for s in sexprs))
            return list(vec)
        except z3.Z3Exception as e:
            msg = str(e)
            m = re.search(r'unknown constant (\S+)', msg)
            if m:
                name = m.group(1).strip('"\')')
                if name in extra_i:
                    extra_i.discard(name)
                    extra_b.add(name)
                elif name in extra_b:
                    return None
                else:
                    extra_i.add(name)
                continue
            m = re.search(r'Sorts Int and Bool are incompatible|operator is applied to arguments of the wrong sort|invalid', msg)
            return None
    return None


def parse_terms(decls, sexprs, z3):
    if not sexprs:
        return []
    vec = parse_with(decls, ['(= %s %s)' % (s, s) for s in sexprs], z3)
    return None if vec is None else [a.arg(0) for a in vec]


def cross_config(prop, res):
    """definite answers agree across configurations; optimum agrees"""
    out = []
    # agreement is required among definite answers "in a logic that covers the problem": the encoding of a buffer uses arrays
    # (non-concurrent) or quantified assertions over uninterpreted functions (concurrent), outside every quantifier-free
    # arithmetic logic -- such (problem, logic) pairs only take part in the validity check of the returned schedule
    recs = [rec for rec in res['per_cfg'] if rec.get('verdict') in ('sat', 'unsat')
            and not (rec['cfg'].get('logics') and res.get('has_buffer'))]
    if len({rec['verdict'] for rec in recs}) > 1:
        out.append(('verdicts-differ', None, [(rec['cfg'], rec['verdict']) for rec in recs]))
    for rec in recs:
        if rec['verdict'] == 'sat' and rec.get('second') == 'unsat':
            out.append(('second-solve-infeasible', rec['cfg'], 'solve() again on the same object reports no solution'))
    unreliable = [rec['cfg'] for rec in recs if len(set(rec.get('repeats', [0]))) > 1]
    if unreliable:
        out.append(('builtin-optimizer-unreliable', None, [(rec['cfg'], rec['repeats']) for rec in recs if rec['cfg'] in unreliable]))
    # the answer of a z3.Optimize configuration is compared only when it was the same on the three attempts
    recs_v = [rec for rec in recs if rec['cfg'] not in unreliable]
    vals = [(rec['cfg'], rec['objective_value']) for rec in recs_v if rec.get('finished') and 'objective_value' in rec]
    if len({v for _, v in vals}) > 1:
        kind = 'optimum-differs'
        counts = collections.Counter(v for _, v in vals)
        dflt = [v for c, v in vals if not c]
        major = dflt[0] if dflt else counts.most_common(1)[0][0]
        outliers = [c for c, v in vals if v != major]
        if outliers and all(c.get('optimizer') == 'optimize' and c.get('debug') for c in outliers):
            # finding F43: z3.Optimize fed through assert_and_track (debug mode) does not optimise reliably
            kind = 'optimum-differs-debug-optimize'
        out.append((kind, None, vals))
    wvals = [(rec['cfg'], rec['weighted_value']) for rec in recs_v if rec.get('finished') and 'weighted_value' in rec
             and (rec['cfg'].get('optimizer', 'incremental') == 'incremental' or rec['cfg'].get('optimize_priority') == 'weight')]
    if len({v for _, v in wvals}) > 1:
        kind = 'weighted-optimum-differs'
        if any(c.get('optimizer') == 'optimize' and c.get('optimize_priority') == 'weight' for c, _ in wvals):
            kind = 'optimize-weight-not-optimised'
        out.append((kind, None, wvals))
    return out


# ----------------------------------------------------------------------------------------------
def observe_debug(args):
    """C19: run the real solver in debug mode, parse the conflict report, re-solve it"""
    idx, prog, cfgs, _, seed, _ = args
    import z3
    import solverproxy as sp
    sp.install()
    import processscheduler as ps
    import impl
    out = {'idx': idx, 'error': None, 'per_cfg': [], 'status': None}
    try:
        verdicts = {}
        # every third case: the first constraint carries the name of an optional task's scheduled flag (a legitimate name;
        # the tracking of debug mode must not make it meet the z3 constant of that name)
        naming = impl.default_naming
        opt_ids = [o[1][1] for o in prog if o[0] == 'ONewTask' and o[3] is True]
        con_ids = [o[1][1] for o in prog if o[0] == 'ONewConstraint']
        if idx % 3 == 0 and opt_ids and con_ids:
            tgt = 'T%d_scheduled' % opt_ids[0]
            naming = (lambda k, i, _c=con_ids[0], _t=tgt: _t if (k == 'K' and i == _c) else impl.default_naming(k, i))
        out['naming'] = 'flag-named constraint' if naming is not impl.default_naming else 'default'
        for c in cfgs:
            im = impl.Impl(naming=naming)
            res = im.run(prog)
            if res[0] != 'ok' or im.pb is None:
                out['status'] = 'rejected'
                return out
            sp.reset()
            rec = {'cfg': c}
            buf = io.StringIO()
            with contextlib.redirect_stdout(buf), warnings.catch_warnings():
                warnings.simplefilter('ignore')
                solver = ps.SchedulingSolver(problem=im.pb, max_time=15, **c)
                im.solver = solver
                solver.initialize()
                s = solver._solver
                tracked = [ev for ev in sp.LOG if ev[0] == 'track']
                added = [ev[1] for ev in sp.LOG if ev[0] == 'add']
                rec['kind'] = 'solver'
                rec['tracked'] = bool(tracked)
                A_raw = [ev[1] for ev in tracked] if tracked else added
                im._pairs = None
                A = im.rename(A_raw)
                rec['A'] = [a.sexpr() for a in A]
                rec['n_asserts'] = len(A)
                rec['dirs'] = []
                rec['obj'] = 'none'
                if tracked:
                    back_names = {naming('K', ci): 'K%d' % ci for ci in im.cons}
                    rec['map'] = [back_names.get(nm0, nm0) for nm0 in (solver._map_boolrefs_to_constraints.get(ev[2]) for ev in tracked)]
                sol = solver.solve()
            text = buf.getvalue()
            checks = [ev for ev in sp.LOG if ev[0] == 'check']
            last = checks[-1][2] if checks else None
            rec['verdict'] = 'sat' if sol else ('unsat' if last == 'unsat' else 'unknown')
            if sol:
                mdl = solver._model
                vi, vb = {}, {}
                ren = {a.get_id(): b2 for a, b2 in (im._pairs or [])}
                for cst in impl.consts_in_order(list(A_raw)):
                    tgt = ren.get(cst.get_id(), cst)
                    v = mdl.eval(cst, model_completion=True)
                    if z3.is_int_value(v):
                        vi[tgt.decl().name()] = v.as_long()
                    elif z3.is_true(v) or z3.is_false(v):
                        vb[tgt.decl().name()] = bool(z3.is_true(v))
                rec['ivals'], rec['bvals'] = vi, vb
            if c.get('debug') and rec['verdict'] == 'unsat':
                m = re.search(r'conflict between (\d+) constraints', text)
                # rich pretty-prints `Class(\n name='K1', ...`, the builtin print gives `name='K1' type=...`
                names = re.findall(r"->\s+(?:\w+\(\s*)?name='([^']*)'", text)
                rec['reported'] = names
                rec['reported_count'] = int(m.group(1)) if m else None
                probs = []
                cons_names = set(im.pb.constraints.keys())
                for nm in names:
                    if nm not in cons_names:
                        probs.append(('reported-not-a-constraint', nm))
                # re-solve: the listed constraints + every non-constraint rule.  Which assertions belong to constraints is decided
                # here from the constraints' own assertion lists (a multiset: z3 shares identical formulas), not from the
                # solver's tracking map, which is what is being checked
                import collections as _c
                cons_ids = _c.Counter()
                for cn, cobj in im.pb.constraints.items():
                    if getattr(cobj, '_created_from_assertion', False):
                        continue
                    for ca in cobj.get_z3_assertions():
                        cons_ids[ca.get_id()] += 1
                s2 = sp.ORIG_SOLVER()
                s2.set('timeout', 15000)
                n_basic = 0
                for a in A_raw:
                    if cons_ids[a.get_id()] > 0:
                        cons_ids[a.get_id()] -= 1
                    else:
                        s2.add(a)
                        n_basic += 1
                rec['basic_rules'] = n_basic
                for nm in set(names):
                    if nm in im.pb.constraints:
                        for ca in im.pb.constraints[nm].get_z3_assertions():
                            s2.add(ca)
                r2 = s2.check()
                if r2 == z3.sat:
                    probs.append(('reported-constraints-do-not-conflict', names))
                rec['diagnosis_problems'] = probs
            out['per_cfg'].append(rec)
        out['status'] = 'ok'
    except Exception:
        out['error'] = traceback.format_exc()[-1500:]
    return out


_orig_cross = cross_config


def cross_config(prop, res):   # noqa: F811  (C19 adds the diagnosis checks to the cross-configuration checks)
    out = _orig_cross(prop, res)
    for rec in res['per_cfg']:
        for p in rec.get('diagnosis_problems', []):
            out.append((p[0], rec['cfg'], p[1]))
    return out
