"""Shared plumbing of the checks: build, proof obligations, hygiene, evidence, findings, replays."""
import glob
import hashlib
import json
import os
import re
import shutil
import subprocess
import sys
import time

VERIF = os.path.dirname(os.path.dirname(os.path.abspath(__file__)))
COQ = os.path.join(VERIF, 'coq')
COQFLAGS = ['-Q', 'model', 'PS.model', '-Q', 'spec', 'PS.spec', '-Q', 'proofs', 'PS.proofs',
            '-Q', 'props', 'PS.props', '-Q', 'extract', 'PS.extract']
FORBIDDEN = re.compile(r'\b(Admitted|admit|Axiom|Axioms|Parameter|Parameters|Conjecture|Conjectures|Hypothesis|Hypotheses|Variable|Variables'
                       r'|Unset\s+Guard|bypass_check|Admit\s+Obligations|Unset\s+Positivity|Unset\s+Universe)\b')


class Ctx:
    def __init__(self, prop, tier, seed):
        self.prop = prop
        self.tier = tier
        self.seed = seed
        self.t0 = time.time()
        self.work = os.path.join(VERIF, 'work', '%s-%d' % (prop, os.getpid()))
        os.makedirs(self.work, exist_ok=True)
        self.lines = []          # KNOWN-FINDING / VIOLATION lines
        self.violations = []
        self.known = []
        self.coverage = {}
        self.assumptions = []
        self.src_changes = []

    def cleanup(self):
        shutil.rmtree(self.work, ignore_errors=True)


def build(ctx):
    """incremental make of the whole development + extracted library; returns (ok, message)"""
    r = subprocess.run([os.path.join(VERIF, 'build.sh')], capture_output=True, text=True, timeout=3600)
    ok = r.returncode == 0 and 'build ok' in r.stdout
    return ok, (r.stdout + r.stderr)[-3000:]


def strip_comments(src):
    out = []
    depth = 0
    i = 0
    while i < len(src):
        if src.startswith('(*', i):
            depth += 1
            i += 2
        elif src.startswith('*)', i) and depth > 0:
            depth -= 1
            i += 2
        else:
            if depth == 0:
                out.append(src[i])
            i += 1
    return ''.join(out)


def hygiene():
    """no Admitted/admit/Axiom/Parameter/... anywhere in the development (Section variables are allowed inside Sections)"""
    bad = []
    for path in sorted(glob.glob(os.path.join(COQ, '**', '*.v'), recursive=True)):
        if '/extract/gen/' in path:
            continue
        src = strip_comments(open(path).read())
        # strings may contain the words
        src_nostr = re.sub(r'"[^"]*"', '""', src)
        depth = 0
        for ln, line in enumerate(src_nostr.split('\n'), 1):
            if re.match(r'\s*Section\b', line):
                depth += 1
            for m in FORBIDDEN.finditer(line):
                w = m.group(1)
                if w.split()[0] in ('Variable', 'Variables', 'Hypothesis', 'Hypotheses') and depth > 0:
                    continue
                bad.append('%s:%d: %s' % (os.path.relpath(path, VERIF), ln, w))
            if re.match(r'\s*End\b', line) and depth > 0:
                depth -= 1
    return bad


def proof_obligations(prop):
    """compile props/<prop>.v afresh; returns dict(theorems=[...], assumptions={thm: text}, ok, log)"""
    vfile = os.path.join('props', prop + '.v')
    src = open(os.path.join(COQ, vfile)).read()
    thms = re.findall(r'^\s*(?:Theorem|Corollary|Lemma)\s+(\w+)', strip_comments(src), re.M)
    r = subprocess.run(['coqc'] + COQFLAGS + [vfile], cwd=COQ, capture_output=True, text=True, timeout=1800)
    ok = r.returncode == 0
    out = r.stdout
    # Print Assumptions outputs appear in order of the theorems that precede them
    printed = re.findall(r'^\s*Print\s+Assumptions\s+(\w+)', strip_comments(src), re.M)
    blocks = []
    cur = None
    for line in out.split('\n'):
        if line.startswith('Closed under the global context'):
            blocks.append('Closed under the global context')
            cur = None
        elif line.startswith('Axioms:'):
            cur = [line]
            blocks.append(cur)
        elif cur is not None and line.strip():
            cur.append(line)
    assumptions = {}
    for name, b in zip(printed, blocks):
        assumptions[name] = b if isinstance(b, str) else '\n'.join(b)
    closed = ok and len(blocks) == len(printed) and set(printed) == set(thms)
    return dict(theorems=thms, assumptions=assumptions, ok=ok, all_printed=closed,
                log=(r.stdout + r.stderr)[-2000:], file=vfile)


def coqchk(prop):
    """thorough tier: re-check the property's compiled file (and everything it depends on) with the independent checker;
    returns dict(ok, axioms, summary)"""
    r = subprocess.run(['coqchk', '-silent', '-o'] + COQFLAGS + ['PS.props.' + prop], cwd=COQ, capture_output=True, text=True, timeout=3000)
    txt = r.stdout + r.stderr
    m = re.search(r'\* Axioms:(.*?)\n\s*\n', txt, re.S)
    axioms = re.sub(r'\s+', ' ', m.group(1)).strip() if m else 'NOT REPORTED'
    bad = [k for k in ('type-in-type', 'unsafe (co)fixpoints', 'positivity is assumed') if re.search(re.escape(k) + r': (?!<none>)', txt)]
    return dict(ok=(r.returncode == 0 and not bad), axioms=axioms, unsafe=bad, summary=txt[-800:])


STDLIB_AXIOMS_OK = ()   # none needed so far; any axiom printed is reported verbatim in trusted_base


def write_replay(ctx, kind, payload):
    os.makedirs(os.path.join(VERIF, 'replays'), exist_ok=True)
    blob = json.dumps(payload, sort_keys=True, default=str)
    h = hashlib.sha1(blob.encode()).hexdigest()[:10]
    path = os.path.join(VERIF, 'replays', '%s-%s-%s.json' % (ctx.prop, kind, h))
    with open(path, 'w') as f:
        json.dump(payload, f, indent=1, default=str)
    return path


def violation(ctx, path, found_input=True):
    line = 'VIOLATION property=%s replay=%s' % (ctx.prop, path)
    if not found_input:
        line += ' no-failing-input-found'
    ctx.lines.append(line)
    ctx.violations.append(path)


def known_finding(ctx, text):
    ctx.lines.append('KNOWN-FINDING: property=%s %s' % (ctx.prop, text))
    ctx.known.append(text)


def load_findings(prop):
    path = os.path.join(VERIF, 'known_findings.json')
    if not os.path.exists(path):
        return []
    return [f for f in json.load(open(path))['findings'] if prop is None or f['property'] == prop]


def write_evidence(ctx, level, coverage, assumptions):
    ev = {
        'property_id': ctx.prop,
        'tier': ctx.tier,
        'seed': ctx.seed,
        'level': level,
        'coverage': dict(coverage, source_watch={'changed_since_recorded_tree': ctx.src_changes[:40], 'sampling_redirected': bool(ctx.src_changes)}),
        'assumptions': assumptions,
        'wall_s': round(time.time() - ctx.t0, 2),
        'violations': len(ctx.violations),
        'known_findings_reported': ctx.known,
    }
    os.makedirs(os.path.join(VERIF, 'evidence'), exist_ok=True)
    with open(os.path.join(VERIF, 'evidence', ctx.prop + '.json'), 'w') as f:
        json.dump(ev, f, indent=1, default=str)


def finish(ctx):
    for l in ctx.lines:
        print(l)
    print('%s %s tier=%s seed=%d violations=%d known=%d wall=%.1fs' % (
        'FAIL' if ctx.violations else 'PASS', ctx.prop, ctx.tier, ctx.seed, len(ctx.violations), len(ctx.known),
        time.time() - ctx.t0))
    ctx.cleanup()
    sys.exit(1 if ctx.violations else 0)


TRUSTED_BASE = [
    'Coq 8.16.1 kernel; vm_compute used in non-vacuity Examples and in the confirmation step (no native_compute)',
    'Spec.v: the formal reading of the property statement (direct, aux-free clauses)',
    'hand-written Coq model of the library (model/*.v) tied to /repo by the correspondence run in this check: '
    'program generator, Python<->model name canonicalisation, SMT-LIB printer show_form, z3 4.12 verdicts on refinement queries',
    'extraction with ExtrOcamlBasic + ExtrOcamlString only (their Extract Inductive bool/option/unit/list/prod/sumbool/sumor, '
    'string=>char list, ascii=>char, Extract Inlined Constant andb/orb/ascii_dec/Ascii.eqb ...; Z, positive, N, nat stay inductive), '
    'OCaml 4.13.1 ocamlfind ocamlopt; cross-checked against Eval vm_compute on a slice each run',
    'not verified: z3 itself, pydantic validation internals, string-derived z3 names (C14)',
]


def pmap(fn, jobs, procs=16, timeout=1500):
    """map over worker processes that survives a worker that dies (a crash inside z3, a kill) or hangs: such a job is re-run
    alone, and if it dies again its result is {'idx', 'error', 'crashed'} -- the engines report it, the check terminates"""
    import concurrent.futures as cf
    import multiprocessing as mp
    results = [None] * len(jobs)

    def sentinel(i, why):
        j = jobs[i]
        idx = j[0] if isinstance(j, (tuple, list)) and j and isinstance(j[0], int) else i
        return {'idx': idx, 'error': 'worker process lost while running this case (%s): the library / z3 crashed or hung on it' % why,
                'crashed': True, 'status': None, 'diffs': [], 'violations': [], 'per_cfg': [], 'o1': None, 'model_run': None}

    def run_batch(indices, workers, tmo):
        ex = cf.ProcessPoolExecutor(max_workers=workers, mp_context=mp.get_context('fork'))
        futs = {ex.submit(fn, jobs[i]): i for i in indices}
        try:
            for f in cf.as_completed(futs, timeout=tmo):
                i = futs[f]
                try:
                    results[i] = f.result()
                except cf.process.BrokenProcessPool:
                    pass
                except Exception as e:      # the job function itself raised: keep it as an error result
                    results[i] = dict(sentinel(i, 'exception'), error='job raised %r' % (e,))
        except cf.TimeoutError:
            pass
        procs_ = list(getattr(ex, '_processes', {}).values())
        ex.shutdown(wait=False, cancel_futures=True)
        for p_ in procs_:
            try:
                p_.kill()
            except Exception:
                pass
        return [i for i in indices if results[i] is None]

    left = run_batch(list(range(len(jobs))), procs, timeout)
    if left:
        # isolate the unfinished jobs: a few at a time, then one by one
        for i in left:
            if run_batch([i], 1, min(timeout, 600)):
                results[i] = sentinel(i, 'died or timed out twice')
    return results
